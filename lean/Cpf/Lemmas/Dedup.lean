/-
  `parseD` (the recogniser with one result per remaining input) against `parse` (all results):
  every result of `parseD` is a result of `parse`; every remaining input reached by `parse` is reached by `parseD`.
-/
import Cpf.Lemmas.Recog

namespace Cpf.Query

abbrev PRes := List PT × List Token

theorem mem_dedupAux_sub (seen : List (List Token)) (l : List PRes) (x : PRes) (h : x ∈ dedupAux seen l) : x ∈ l := by
  induction l generalizing seen with
  | nil => simp [dedupAux] at h
  | cons p ps ih =>
      simp only [dedupAux] at h
      split at h
      · exact List.mem_cons_of_mem _ (ih _ h)
      · rcases List.mem_cons.1 h with rfl | h
        · exact List.mem_cons_self
        · exact List.mem_cons_of_mem _ (ih _ h)

theorem mem_dedupRest_sub (l : List PRes) (x : PRes) (h : x ∈ dedupRest l) : x ∈ l := mem_dedupAux_sub [] l x h

/-- a remaining input that occurs in the list and has not been seen survives -/
theorem dedupAux_keeps (seen : List (List Token)) (l : List PRes) (x : PRes) (hx : x ∈ l) (hs : x.2 ∉ seen) :
    ∃ y ∈ dedupAux seen l, y.2 = x.2 := by
  induction l generalizing seen with
  | nil => simp at hx
  | cons p ps ih =>
      simp only [dedupAux]
      by_cases hc : seen.contains p.2 = true
      · simp only [hc, if_true]
        rcases List.mem_cons.1 hx with rfl | hx
        · exact absurd (by simpa using hc) hs
        · exact ih seen hx hs
      · simp only [hc]
        rcases List.mem_cons.1 hx with rfl | hx
        · exact ⟨x, List.mem_cons_self, rfl⟩
        · by_cases he : x.2 = p.2
          · exact ⟨p, List.mem_cons_self, he.symm⟩
          · obtain ⟨y, hy, hyx⟩ := ih (p.2 :: seen) hx (by simp [he, hs])
            exact ⟨y, List.mem_cons_of_mem _ hy, hyx⟩

theorem dedupRest_keeps (l : List PRes) (x : PRes) (hx : x ∈ l) : ∃ y ∈ dedupRest l, y.2 = x.2 :=
  dedupAux_keeps [] l x hx (by simp)

/-- every result of `parseD` is a result of `parse` -/
theorem parseD_sub (g : Grammar) : ∀ (f : Nat) (r : Rhs) (ts : List Token) (p : PRes), p ∈ parseD g f r ts → p ∈ parse g f r ts := by
  intro f r ts
  fun_induction parseD g f r ts with
  | case1 f ts => intro p hp; simpa [parse] using hp
  | case2 f t rest => intro p hp; simpa [parse] using hp
  | case3 f k t rest hk => intro p hp; simp at hp
  | case4 f k => intro p hp; simp at hp
  | case5 n ts => intro p hp; simp at hp
  | case6 f n ts hl => intro p hp; simp at hp
  | case7 f n ts rhs hl ih =>
      intro p hp
      have hp := mem_dedupRest_sub _ _ hp
      simp only [List.mem_map] at hp
      obtain ⟨q, hq, rfl⟩ := hp
      simp only [parse, hl, List.mem_map]
      exact ⟨q, ih q hq, rfl⟩
  | case8 f a b ts ihb iha =>
      intro p hp
      have hp := mem_dedupRest_sub _ _ hp
      simp only [List.mem_flatMap, List.mem_map] at hp
      obtain ⟨q, hq, s, hs, rfl⟩ := hp
      simp only [parse, List.mem_flatMap, List.mem_map]
      exact ⟨q, iha q hq, s, ihb q s hs, rfl⟩
  | case9 f a b ts iha ihb =>
      intro p hp
      have hp := mem_dedupRest_sub _ _ hp
      simp only [parse, List.mem_append] at hp ⊢
      rcases hp with hp | hp
      · exact Or.inl (iha p hp)
      · exact Or.inr (ihb p hp)
  | case10 a ts => intro p hp; simpa [parse] using hp
  | case11 f a ts ihs iha =>
      intro p hp
      have hp := mem_dedupRest_sub _ _ hp
      simp only [List.mem_append, List.mem_flatMap, List.mem_map, List.mem_singleton] at hp
      simp only [parse, List.mem_append, List.mem_flatMap, List.mem_map, List.mem_singleton]
      rcases hp with ⟨q, hq, s, hs, rfl⟩ | rfl
      · exact Or.inl ⟨q, iha q hq, s, ihs q s hs, rfl⟩
      · exact Or.inr rfl

/-- every remaining input `parse` reaches, `parseD` reaches -/
theorem parseD_complete (g : Grammar) : ∀ (f : Nat) (r : Rhs) (ts : List Token) (p : PRes), p ∈ parse g f r ts →
    ∃ q ∈ parseD g f r ts, q.2 = p.2 := by
  intro f r ts
  fun_induction parse g f r ts with
  | case1 f ts => intro p hp; exact ⟨p, by simpa [parseD] using hp, rfl⟩
  | case2 f t rest => intro p hp; exact ⟨p, by simpa [parseD] using hp, rfl⟩
  | case3 f k t rest hk => intro p hp; simp at hp
  | case4 f k => intro p hp; simp at hp
  | case5 n ts => intro p hp; simp at hp
  | case6 f n ts hl => intro p hp; simp at hp
  | case7 f n ts rhs hl ih =>
      intro p hp
      simp only [List.mem_map] at hp
      obtain ⟨q, hq, rfl⟩ := hp
      obtain ⟨q', hq', he⟩ := ih q hq
      have hm : (([PT.node n q'.1], q'.2) : PRes) ∈ (parseD g f rhs ts).map (fun p => ([PT.node n p.1], p.2)) :=
        List.mem_map.2 ⟨q', hq', rfl⟩
      obtain ⟨y, hy, hye⟩ := dedupRest_keeps _ _ hm
      refine ⟨y, ?_, by simpa [he] using hye⟩
      simp only [parseD, hl]
      exact hy
  | case8 f a b ts ihb iha =>
      intro p hp
      simp only [List.mem_flatMap, List.mem_map] at hp
      obtain ⟨q, hq, s, hs, rfl⟩ := hp
      obtain ⟨q', hq', he⟩ := iha q hq
      obtain ⟨s', hs', hes⟩ := ihb q s hs
      have hm : ((q'.1 ++ s'.1, s'.2) : PRes) ∈ (parseD g f a ts).flatMap (fun p => (parseD g f b p.2).map (fun q => (p.1 ++ q.1, q.2))) := by
        simp only [List.mem_flatMap, List.mem_map]
        exact ⟨q', hq', s', by rw [he]; exact hs', rfl⟩
      obtain ⟨y, hy, hye⟩ := dedupRest_keeps _ _ hm
      refine ⟨y, ?_, by simpa [hes] using hye⟩
      simp only [parseD]
      exact hy
  | case9 f a b ts iha ihb =>
      intro p hp
      simp only [List.mem_append] at hp
      have hm : ∃ q ∈ parseD g f a ts ++ parseD g f b ts, q.2 = p.2 := by
        rcases hp with hp | hp
        · obtain ⟨q, hq, he⟩ := iha p hp; exact ⟨q, List.mem_append.2 (Or.inl hq), he⟩
        · obtain ⟨q, hq, he⟩ := ihb p hp; exact ⟨q, List.mem_append.2 (Or.inr hq), he⟩
      obtain ⟨q, hq, he⟩ := hm
      obtain ⟨y, hy, hye⟩ := dedupRest_keeps _ _ hq
      refine ⟨y, ?_, by rw [hye, he]⟩
      simp only [parseD]
      exact hy
  | case10 a ts => intro p hp; exact ⟨p, by simpa [parseD] using hp, rfl⟩
  | case11 f a ts ihs iha =>
      intro p hp
      simp only [List.mem_append, List.mem_flatMap, List.mem_map, List.mem_singleton] at hp
      have hm : ∃ q ∈ ((parseD g (f + 1) a ts).flatMap (fun p => (parseD g f (.star a) p.2).map (fun q => (p.1 ++ q.1, q.2)))) ++ [([], ts)], q.2 = p.2 := by
        rcases hp with ⟨q, hq, s, hs, rfl⟩ | rfl
        · obtain ⟨q', hq', he⟩ := iha q hq
          obtain ⟨s', hs', hes⟩ := ihs q s hs
          refine ⟨(q'.1 ++ s'.1, s'.2), ?_, by simpa using hes⟩
          simp only [List.mem_append, List.mem_flatMap, List.mem_map]
          exact Or.inl ⟨q', hq', s', by rw [he]; exact hs', rfl⟩
        · exact ⟨([], ts), by simp, rfl⟩
      obtain ⟨q, hq, he⟩ := hm
      obtain ⟨y, hy, hye⟩ := dedupRest_keeps _ _ hq
      refine ⟨y, ?_, by rw [hye, he]⟩
      simp only [parseD]
      exact hy

end Cpf.Query
