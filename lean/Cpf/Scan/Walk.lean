/-
  File discovery: Go's `filepath.Walk` (path/filepath, `walk`) with the callback of `graph.getFiles`.

  The directory tree is data: every entry has a name, may fail `lstat`, a directory may fail to be listed.
  `walkWith cb` is `filepath.Walk`'s control flow for an arbitrary callback (what the three possible results of a
  callback — nil, an error, SkipDir — do to the traversal); `getFilesCb` is the callback of `getFiles` as the
  regenerated decision list `Cpf.Generated.getFilesCallback` pins it.  Children are visited in the order given
  (`readDirNames` sorts them; the order is irrelevant to what is collected).
-/
namespace Cpf.Scan.Walk

inductive Ent where
  | file (name : String) (lstatErr : Bool)
  | dir (name : String) (lstatErr : Bool) (readErr : Bool) (kids : List Ent)
  deriving Repr

def Ent.name : Ent → String
  | .file n _ => n
  | .dir n _ _ _ => n

def Ent.lstatErr : Ent → Bool
  | .file _ e => e
  | .dir _ e _ _ => e

def Ent.isDir : Ent → Bool
  | .file _ _ => false
  | .dir _ _ _ _ => true

/-- what a WalkFunc returns -/
inductive Ret | nil | err | skipDir
  deriving DecidableEq, Repr

/-- a callback: path, info (none when lstat failed; some isDir otherwise), "an error is reported", state -/
abbrev Path := List String      -- path elements, root first

abbrev Cb (σ : Type) := Path → Option Bool → Bool → σ → σ × Ret

def join (dir : Path) (name : String) : Path := dir ++ [name]

mutual
/-- `walk(path, info, walkFn)` for an entry whose lstat succeeded -/
def walk {σ : Type} (cb : Cb σ) (path : Path) : Ent → σ → σ × Ret
  | .file _ _, st => cb path (some false) false st
  | .dir _ _ readErr kids, st =>
      match cb path (some true) readErr st with
      | (st1, r1) =>
          if readErr || r1 != Ret.nil then (st1, r1)
          else walkKids cb path kids st1
/-- the loop over the names of a directory -/
def walkKids {σ : Type} (cb : Cb σ) (path : Path) : List Ent → σ → σ × Ret
  | [], st => (st, Ret.nil)
  | k :: ks, st =>
      if k.lstatErr then
        match cb (join path k.name) none true st with
        | (st1, r) => if r == Ret.err then (st1, Ret.err) else walkKids cb path ks st1
      else
        match walk cb (join path k.name) k st with
        | (st1, r) =>
            if r == Ret.nil then walkKids cb path ks st1
            else if k.isDir && r == Ret.skipDir then walkKids cb path ks st1
            else (st1, r)
end

/-- `filepath.Walk(root, fn)`: lstat of the root, then `walk`; SkipDir at the top is not an error -/
def walkRoot {σ : Type} (cb : Cb σ) (root : Path) (e : Ent) (st : σ) : σ × Bool :=
  if e.lstatErr then
    match cb root none true st with
    | (st1, r) => (st1, r == Ret.err)
  else
    match walk cb root e st with
    | (st1, r) => (st1, r == Ret.err)

/-- `filepath.Ext(name)`: the text from the last dot of the last path element ("" when there is none) -/
def extOf (name : List Char) : List Char :=
  let r := name.reverse
  if r.contains '.' then '.' :: (r.takeWhile (· != '.')).reverse else []

/-- `filepath.Ext(path) == ".java"` -/
def hasJavaExt (path : Path) : Bool :=
  match path.getLast? with
  | some n => extOf n.toList == ['.', 'j', 'a', 'v', 'a']
  | none => false

/-- the callback of `getFiles` -/
def getFilesCb (root : Path) : Cb (List Path) := fun path info err files =>
  if err then
    if path == root then (files, Ret.err)
    else if info == some true then (files, Ret.skipDir)
    else (files, Ret.nil)
  else if info == some false && hasJavaExt path then (files ++ [path], Ret.nil)
  else (files, Ret.nil)

def getFiles (root : Path) (e : Ent) : List Path × Bool := walkRoot (getFilesCb root) root e []

/-! ### what it collects, as a plain structural function -/

mutual
def javaFiles (path : Path) : Ent → List Path
  | .file _ _ => if hasJavaExt path then [path] else []
  | .dir _ _ readErr kids => if readErr then [] else javaFilesKids path kids
def javaFilesKids (path : Path) : List Ent → List Path
  | [] => []
  | k :: ks => (if k.lstatErr then [] else javaFiles (join path k.name) k) ++ javaFilesKids path ks
end

end Cpf.Scan.Walk
