/-
  C19 — every entity kind the scanner produces can be queried.

  Entirely over tables regenerated from /repo by tools/factgen on every run:
  * `nodeLits`        every `&Node{…}` literal of `buildGraphFromAST` (kind, fields set, …)
  * `envCases`        `case "<kind>": <var> = entity.Alias` of `generateProxyEnv`
  * `envAccessors`    `<var>: map[string]interface{}{ "<accessor>": proxyenv.<Method> | "<lit>" }`
  * `envMethodDerefs` for every `Env` method, the `env.Node.…` selector chains it evaluates
  The quantifier "all programs" is discharged through the kinds: whatever program is scanned,
  every entity comes from one of the literals in `nodeLits` (tie: correspondence `scan-dump`).
-/
import Cpf.Generated.Tables

namespace Cpf.Props.C19
open Cpf.Generated Cpf.Facts

/-- Kinds the scanner can produce: `Type:` of every literal that is added to the graph. -/
def producedKinds : List String := (nodeLits.filter (·.added)).map (·.kind)

/-- The variable of `generateProxyEnv` that is bound to the alias of a FROM item of kind `k`. -/
def varOfKind (k : String) : Option String := (envCases.find? (·.1 == k)).map (·.2)

/-- The accessor table (name ↦ implementation) reachable for kind `k`. -/
def accessorsOf (k : String) : List (String × AccImpl) :=
  match varOfKind k with
  | none => []
  | some v => ((envAccessors.find? (·.1 == v)).map (·.2)).getD []

/-- `FROM k AS x` binds `x`: there is a `case k` and its variable is a key of the env map. -/
def Bindable (k : String) : Bool :=
  match varOfKind k with
  | none => false
  | some v => envAccessors.any (·.1 == v)

/-- Fields (struct keys) set by *every* literal that produces kind `k`. -/
def fieldsSetFor (k : String) : List String :=
  match (nodeLits.filter (fun l => l.added && l.kind == k)) with
  | [] => []
  | l :: ls => l.fields.filter (fun f => ls.all (·.fields.contains f))

/-- Pointer fields of `Node` that method `m` dereferences (a chain `P.x` with `P` a pointer field),
    unless the method guards it itself (`GetDoc` allocates when nil). -/
def derefsOf (m : String) : List String :=
  if m == "GetDoc" then [] else
  let chains := ((envMethodDerefs.find? (·.1 == m)).map (·.2)).getD []
  chains.filterMap (fun c =>
      match c with
      | p :: _ :: _ => if nodePointerFields.contains p then some p else none
      | _ => none)

def methodOf : AccImpl → Option String
  | .method m => some m
  | .lit _ => none

/-- No accessor offered for kind `k` dereferences a pointer field that `k`'s literal leaves nil. -/
def AccessorsNilSafe (k : String) : Bool :=
  (accessorsOf k).all (fun a =>
    match methodOf a.2 with
    | none => true
    | some m => (derefsOf m).all (fun p => (fieldsSetFor k).contains p))

/-- Every method named in the accessor tables exists on `Env`. -/
def AccessorsDefined (k : String) : Bool :=
  (accessorsOf k).all (fun a =>
    match methodOf a.2 with
    | none => true
    | some m => envMethodDerefs.any (·.1 == m))

/-- The property, per kind. -/
def Queryable (k : String) : Bool :=
  Bindable k && (accessorsOf k).any (·.1 == "toString") && AccessorsNilSafe k && AccessorsDefined k

/-- Every literal in `buildGraphFromAST` is added to the graph (no produced kind is missed by `producedKinds`). -/
theorem C19_all_literals_added : nodeLits.all (·.added) = true := by decide

/-- C19: every produced kind can be named in FROM and bound to an alias. -/
theorem C19_bindable : ∀ k ∈ producedKinds, Bindable k = true := by decide

/-- C19: every produced kind can be selected (`SELECT x` evaluates `x.toString()`). -/
theorem C19_select : ∀ k ∈ producedKinds, (accessorsOf k).any (·.1 == "toString") = true := by decide

/-- C19: every accessor offered for a produced kind is defined and never hits a nil field on that kind. -/
theorem C19_accessors : ∀ k ∈ producedKinds, (AccessorsNilSafe k && AccessorsDefined k) = true := by decide

/-- C19 (combined). -/
theorem C19_queryable : ∀ k ∈ producedKinds, Queryable k = true := by
  intro k hk
  have h1 := C19_bindable k hk
  have h2 := C19_select k hk
  have h3 := C19_accessors k hk
  simp only [Queryable, h1, h2, Bool.true_and]
  simpa using h3

/-- Two different produced kinds never share a binding variable of `generateProxyEnv`. -/
def DistinctBindings (ks : List String) : Bool :=
  ks.all (fun k₁ => ks.all (fun k₂ => k₁ == k₂ || varOfKind k₁ != varOfKind k₂))

/-- C19 (several FROM items): the aliases of two FROM items of different produced kinds are bound through
    different variables, so naming both kinds in one FROM list leaves each alias bound to its own accessor map
    (the map literal of `generateProxyEnv` has one key per variable; a shared variable would be one key, and the
    alias of the earlier item would be left unbound). -/
theorem C19_bindings_distinct : DistinctBindings producedKinds = true := by decide

theorem C19_two_kinds_bound (k₁ k₂ : String) (h₁ : k₁ ∈ producedKinds) (h₂ : k₂ ∈ producedKinds) (hne : k₁ ≠ k₂) :
    varOfKind k₁ ≠ varOfKind k₂ ∧ Bindable k₁ = true ∧ Bindable k₂ = true := by
  refine ⟨?_, C19_bindable k₁ h₁, C19_bindable k₂ h₂⟩
  have h := C19_bindings_distinct
  simp only [DistinctBindings, List.all_eq_true] at h
  have h' := h k₁ h₁ k₂ h₂
  simp only [Bool.or_eq_true, beq_iff_eq, bne_iff_ne] at h'
  rcases h' with h' | h'
  · exact absurd h' hne
  · exact h'

/-- Non-vacuity: the table is not empty and contains the kinds users query most. -/
example : "method_declaration" ∈ producedKinds ∧ "BlockStmt" ∈ producedKinds ∧ producedKinds.length ≥ 30 := by decide

end Cpf.Props.C19
