"""C13 — predicates and aliases are transparent abstractions.

Proof: Cpf.Props.C13 (unused declarations / reordering do not affect resolution and expansion; a condition
that is exactly a call expands to exactly the renamed body; renaming lemmas).
Correspondence: the Lean expansion (driver `cond`) vs the real ReplacePredicateVariables, text for text.
Oracle: metamorphic variants of each query run on the real engine must give the same result multiset:
call inlined by the generator (capture-free, simultaneous), aliases renamed, formals renamed,
unused predicates added, declarations reordered."""
import collections, json, random
from vlib import common as C, engine as E, querygen as QG, genquery as GQ
from checks import c01

LEAN_MODULES = ["Cpf.Props.C13", "Cpf.Lemmas.Subst"]


def rename_alias(q, old, new):
    v = QG.clone(q)
    v.from_items = [(k, new if a == old else a) for k, a in q.from_items]
    ren = {old: new}
    v.cond = E.rename(q.cond, ren) if q.cond is not None else None
    # a body may speak of a FROM alias directly (a predicate without parameters does): there the alias is renamed too,
    # unless a formal of that predicate has its name
    v.preds = [QG.Pred(p.name, list(p.params), p.body if old in [n for _, n in p.params] else E.rename(p.body, ren)) for p in q.preds]
    v.select_tokens = []
    for toks in q.select_tokens:
        out = []
        for i, (k, t) in enumerate(toks):
            if k == "IDENTIFIER" and t == old and not (i > 0 and toks[i - 1][1] == "."):
                out.append((k, new))
            else:
                out.append((k, t))
        v.select_tokens.append(out)
    return QG.flatten(v)


def rename_formal(q, pi, old, new):
    v = QG.clone(q)
    p = v.preds[pi]
    v.preds[pi] = QG.Pred(p.name, [(t, new if n == old else n) for t, n in p.params], E.rename(p.body, {old: new}))
    return QG.flatten(v)


def targeted_search(run, proj, d, q, stats):
    """The model and the implementation expand a call of this query differently. That is not yet a
    violation: look for a context in which the difference changes the *results* (oracle: the generator's
    own inlining). Every declared predicate is called plainly, negated, and as an operand of && and ||."""
    rng = run.rng
    for p in q.preds:
        args = []
        for t, _ in p.params:
            al = [a for k, a in q.from_items if k == t]
            if not al:
                break
            args.append(al[0])
        else:
            call = ("call", p.name, tuple(args))
            k, a = q.from_items[0]
            others = [QG.accessor_atom(rng, a, k, proj.values) for _ in range(3)]
            ctxs = [call, QG.mk("not", call), QG.mk("and", QG.mk("not", call), others[0]), QG.mk("or", QG.mk("not", call), others[1]),
                    QG.mk("and", call, others[0]), QG.mk("or", others[1], call), QG.mk("not", QG.mk("and", call, others[2])),
                    QG.mk("and", others[0], QG.mk("not", call)), QG.mk("not", QG.mk("not", call))]
            for c in ctxs:
                v = QG.clone(q)
                v.cond = c
                QG.flatten(v)
                text = QG.plain(v)
                res = E.engine_case(proj, d, text, v)
                stats["targeted"] += 1
                run.count(("targeted", text))
                c01.judge(run, "C13", proj, text, v, res, stats, [])
    # body shapes x call contexts
    k, a = q.from_items[0]
    for v in c01.predicate_cases(rng, proj, k, alias=a, limit=200):
        text = QG.plain(v)
        res = E.engine_case(proj, d, text, v)
        stats["targeted"] += 1
        run.count(("targeted-shape", text))
        c01.judge(run, "C13", proj, text, v, res, stats, [])


def run(run):
    C.build_driver()
    h, d = C.Harness(), C.Driver()
    rng = run.rng
    nproj = 2 if run.depth == "quick" else 8
    nq = 60 if run.depth == "quick" else 400
    mism, stats = [], collections.Counter()
    names = ["m", "md", "md2", "get", "Name", "getName", "e", "n", "a", "b", "x", "x1", "p", "in1", "_", "_m", "d", "N"]
    try:
        for pi in range(nproj):
            proj = E.small_project(rng, h, nfiles=2, extra={"src/Gate.java": c01.GATE})
            try:
                kinds = [k for k in QG.KINDS_DEFAULT if proj.by_kind.get(k)]
                for v in c01.predicate_cases(rng, proj, rng.choice(kinds), alias=rng.choice(["x", "md", "m2"]), limit=(100 if run.depth == "quick" else None)):
                    text = QG.plain(v)
                    res = E.engine_case(proj, d, text, v)
                    run.count(("pred-shape", text))
                    c01.judge(run, "C13", proj, text, v, res, stats, mism)
                for v in c01.directed_cases(rng, proj, kinds):
                    text = QG.plain(v)
                    res = E.engine_case(proj, d, text, v)
                    run.count(("directed", text))
                    stats["directed_cases"] += 1
                    c01.judge(run, "C13", proj, text, v, res, stats, mism)
                    rp = h.call(op="replace-predicates", q=text)
                    if rp.get("outcome") == "ok" and res.get("model_outcome") == "ok" and rp["expression"] != res["info"].get("expanded"):
                        mism.append(dict(query=text, real_expansion=rp["expression"], model_expansion=res["info"].get("expanded")))
                for v in c01.overload_cases(rng, proj, kinds):
                    text = QG.plain(v)
                    res = E.engine_case(proj, d, text, v)
                    run.count(("overloads", text))
                    stats["overload_cases"] += 1
                    c01.judge(run, "C13", proj, text, v, res, stats, mism)
                for i in range(nq // nproj):
                    q = QG.random_query(rng, kinds=kinds, values=proj.values, depth=2, n_preds=rng.choice([1, 1, 2, 3]), where=True,
                                        n_entities=rng.choice([1, 2, 2]))
                    text = GQ.layout(q.lexemes, q.kinds, rng, aggressive=(i % 2 == 0))
                    base = E.engine_case(proj, d, text, q)
                    run.count(("base", tuple(q.lexemes)))
                    c01.judge(run, "C13", proj, text, q, base, stats, mism)
                    # --- correspondence on the expansion text itself
                    rp = h.call(op="replace-predicates", q=text)
                    if rp.get("outcome") == "ok" and base.get("model_outcome") == "ok":
                        if rp["expression"] != base["info"].get("expanded"):
                            mism.append(dict(query=text, real_expansion=rp["expression"], model_expansion=base["info"].get("expanded")))
                            if len(mism) <= 6:
                                targeted_search(run, proj, d, q, stats)
                    elif rp.get("outcome") == "panic":
                        run.violation("C13:expansion-panic", "ReplacePredicateVariables panicked on %r" % text, dict(query=text, panic=rp.get("panic")))
                    if base["real"] is None:
                        continue
                    want = collections.Counter(base["real"])
                    has_call = q.cond is not None and "call" in json.dumps(q.cond)
                    if has_call:
                        stats["with_call"] += 1
                    variants = []
                    if q.cond is not None:
                        v = QG.clone(q)
                        v.cond = E.inline_calls(q.cond, q.preds, E.alias_kinds(q))
                        variants.append(("inlined", QG.flatten(v)))
                    used = {a for _, a in q.from_items} | {p.name for p in q.preds} | set(kinds)
                    formals = [n for p in q.preds for _, n in p.params]
                    for _, a in q.from_items:
                        # new alias names include the names of predicate formals (any position)
                        cand = [n for n in names + formals if n not in used and n not in QG.RESERVED]
                        if cand:
                            variants.append(("alias-renamed", rename_alias(q, a, rng.choice(cand))))
                        # ... and names that differ from another alias of the query only in the case of their letters
                        twins = [t for _, o in q.from_items if o != a for t in (o.upper(), o.lower(), o.capitalize(), o.swapcase())
                                 if t != o and t not in used and t not in QG.RESERVED]
                        if twins:
                            stats["case_twin_aliases"] += 1
                            variants.append(("alias-renamed-to-case-twin", rename_alias(q, a, rng.choice(twins))))
                    for pj, p in enumerate(q.preds):
                        for _, n in p.params:
                            cand = [x for x in names + [a for _, a in q.from_items] if x not in {m for _, m in p.params} and x not in QG.RESERVED and x not in kinds and x != p.name]
                            if cand:
                                variants.append(("formal-renamed", rename_formal(q, pj, n, rng.choice(cand))))
                    v = QG.clone(q)
                    extra = QG.random_query(rng, kinds=kinds, values=proj.values, n_preds=2, where=False).preds
                    extra = [QG.Pred("unused%d_%s" % (j, e.name), e.params, e.body) for j, e in enumerate(extra)]
                    v.preds = (extra[:1] + v.preds + extra[1:])
                    variants.append(("unused-added", QG.flatten(v)))
                    if len(q.preds) > 1:
                        v = QG.clone(q)
                        v.preds = list(reversed(v.preds))
                        variants.append(("reordered", QG.flatten(v)))
                    for name, vq in variants:
                        vt = GQ.layout(vq.lexemes, vq.kinds, rng, aggressive=False)
                        rr = h.call(op="query-entities", graph=proj.name, q=vt, timeout=300)
                        run.count((name, tuple(vq.lexemes)))
                        stats["variant:" + name] += 1
                        if rr.get("outcome") != "ok":
                            run.violation("C13:%s:not-ok" % name, "variant %s of %r ends with %s: %r" % (name, text, rr.get("outcome"), vt),
                                          dict(query=text, variant=vt, err=rr.get("err") or rr.get("panic")))
                            if rr.get("outcome") == "died":
                                proj.rescan()
                            continue
                        got = collections.Counter(tuple(t) for t in rr["tuples"])
                        if got != want:
                            diff = list(((got - want) + (want - got)).elements())
                            run.violation("C13:%s:results-differ" % name,
                                          "%s changes the results: %r (%d) vs %r (%d), e.g. %s" % (name, text, sum(want.values()), vt, sum(got.values()), E.describe(proj, diff, 2)),
                                          dict(query=text, variant=vt, kind=name, java=E.java_files(proj), differing=E.describe(proj, diff)))
                        if i < 1 and name == "inlined":
                            run.sample(dict(query=text, variant=name, variant_query=vt, results=sum(want.values())))
            finally:
                proj.close()
    finally:
        h.close()
        d.close()
    run.extra["histogram"] = dict(stats)
    if mism:
        run.broken_obligation("correspondence:expansion", "Lean model and the implementation disagree: %s" % json.dumps(mism[:3])[:1500])
