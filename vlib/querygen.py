"""Grammar-directed generator of queries of the FROM/WHERE/SELECT language with known structure
(DESIGN.md §5, "Query family"). A query is built as an AST, flattened to (kind, lexeme) tokens and
laid out separately, so the same token sequence can be rendered with many layouts."""
import json, os, random

KINDS_DEFAULT = ["method_declaration", "class_declaration", "variable_declaration", "method_invocation"]

STRING_ACC = {
    "method_declaration": ["getName", "getVisibility", "getReturnType"],
    "class_declaration": ["getName", "getVisibility", "getSuperClass"],
    "variable_declaration": ["getName", "getVisibility", "getVariableDataType", "getScope", "getVariableValue"],
    "method_invocation": ["getName"],
    "ClassInstanceExpr": ["getName"],
}
LIST_ACC = {
    "method_declaration": ["getAnnotation", "getArgumentType", "getArgumentName", "getThrowsType"],
    "class_declaration": ["getAnnotation", "getInterface"],
    "method_invocation": ["getArgumentName"],
}
FIELD = {"getName": "name", "getVisibility": "modifier", "getReturnType": "returnType", "getSuperClass": "superClass",
         "getVariableDataType": "dataType", "getScope": "scope", "getVariableValue": "value",
         "getAnnotation": "annotations", "getArgumentType": "argTypes", "getArgumentName": "argValues",
         "getThrowsType": "throws", "getInterface": "interfaces"}

RESERVED = {"predicate", "FROM", "WHERE", "AS", "SELECT", "LIKE", "in", "true", "false", "nil", "not", "and", "or",
            "matches", "contains", "startsWith", "endsWith", "let", "if", "else", "len", "all", "any", "one", "none",
            "map", "filter", "count", "sum", "env", "int", "float", "string", "first", "last", "get", "keys", "values",
            "min", "max", "abs", "now", "date", "duration", "trim", "upper", "lower", "split", "join", "repeat",
            "replace", "type", "find", "sort", "reduce", "take", "mean", "median", "ceil", "floor", "round", "bitand",
            "bitor", "bitxor", "bitnand", "bitnot", "bitshl", "bitshr", "bitushr", "toJSON", "fromJSON", "toBase64",
            "fromBase64", "concat", "flatten", "uniq", "groupBy", "sortBy", "findIndex", "findLast", "findLastIndex",
            "indexOf", "lastIndexOf", "hasPrefix", "hasSuffix", "splitAfter", "trimPrefix", "trimSuffix", "timezone",
            "reverse", "toPairs", "fromPairs"}


def ident(x):
    return ("IDENTIFIER", x)


def sym(s):
    return ("'" + s + "'", s)


def strlit(content):
    """content is the raw inside of the literal (already escaped for the query language)"""
    return ("STRING", '"' + content + '"')


def esc_lit(s):
    return s.replace("\\", "\\\\").replace('"', '\\"')


class Pred:
    def __init__(self, name, params, body):
        self.name, self.params, self.body = name, params, body

    @property
    def body_text(self):
        return "".join(t for _, t in cond_tokens(self.body))


class Query:
    pass


def cond_tokens(c):
    k = c[0]
    if k == "atom":
        return list(c[1])
    if k == "or":
        return cond_tokens(c[1]) + [sym("||")] + cond_tokens(c[2])
    if k == "and":
        return cond_tokens(c[1]) + [sym("&&")] + cond_tokens(c[2])
    if k == "not":
        return [sym("!")] + cond_tokens(c[1])
    if k == "paren":
        return [sym("(")] + cond_tokens(c[1]) + [sym(")")]
    if k == "call":
        toks = [ident(c[1]), sym("(")]
        for i, a in enumerate(c[2]):
            if i:
                toks.append(sym(","))
            toks.append(ident(a))
        toks.append(sym(")"))
        return toks
    raise ValueError(c)


def needs_paren(parent, child):
    """precedence: or < and < not/atom"""
    rank = {"or": 1, "and": 2, "not": 3, "atom": 4, "paren": 4, "call": 4}
    if parent == "not":
        return rank[child] < 3 or child == "atom"   # !a == b means (!a) == b: always parenthesise an atom under '!'
    return rank[child] < rank[parent]


def mk(kind, *kids):
    """smart constructor inserting the parentheses the concrete syntax needs"""
    out = [kind]
    for kid in kids:
        if needs_paren(kind, kid[0]):
            kid = ("paren", kid)
        out.append(kid)
    return tuple(out)


def canonical(c):
    """the text ParseQuery is expected to record for the condition: lexemes concatenated, || and && spaced"""
    out = []
    for k, t in cond_tokens(c):
        out.append(" " + t + " " if t in ("||", "&&") else t)
    return "".join(out)


def num(n):
    return ("NUMBER", str(n))


def arith_atom(rng):
    """a comparison between two arithmetic expressions over numbers ( * / + - and unary minus )"""
    def term():
        t = [num(rng.randint(0, 9))]
        for _ in range(rng.choice([0, 1, 1, 2])):
            t += [sym(rng.choice(["*", "*", "+", "-", "/"]))]
            if rng.random() < 0.25:
                t += [sym("-")]                     # a sign after an operator: 1 - -1, 2 * -3 (two minus tokens may touch)
            t += [num(rng.randint(1, 9))]
        return t
    lhs = ([sym("-")] * rng.choice([1, 1, 2]) if rng.random() < 0.2 else []) + term()
    return ("atom", tuple(lhs + [sym(rng.choice(["==", "!=", "<", ">", "<=", ">="]))] + term()))


def accessor_atom(rng, alias, kind, values, negate=None):
    """a boolean-typed atomic condition over one alias"""
    r = rng.random()
    if rng.random() < 0.07:
        return arith_atom(rng)
    sacc = STRING_ACC.get(kind, ["getName"])
    if r < 0.65 or kind not in LIST_ACC:
        acc = rng.choice(sacc)
        pool = values.get((kind, acc)) or ["x"]
        v = rng.choice(pool) if rng.random() < 0.8 else rng.choice(["nope", "SELECT", "a WHERE b", "x\"y", "two  blanks", "tab\there", " lead", "trail ", "http://x/y", "a // b", "50%", "%s"])
        op = rng.choice(["==", "==", "!=", "==", "<", ">=", ">", "<="])
        lhs = [ident(alias), sym("."), ident(acc), sym("("), sym(")")]
        rhs = [strlit(esc_lit(v))]
        if rng.random() < 0.2:
            lhs, rhs = rhs, lhs
            op = {"<": ">", ">": "<", "<=": ">=", ">=": "<="}.get(op, op)
        return ("atom", tuple(lhs + [sym(op)] + rhs))
    if r < 0.85:
        acc = rng.choice(LIST_ACC[kind])
        pool = values.get((kind, acc)) or ["x"]
        v = rng.choice(pool) if rng.random() < 0.8 else "nope"
        return ("atom", tuple([strlit(esc_lit(v)), (("' in '"), " in "), ident(alias), sym("."), ident(acc), sym("("), sym(")")]))
    acc = rng.choice(sacc)
    pool = values.get((kind, acc)) or ["x"]
    vs = rng.sample(pool, min(len(pool), rng.randint(1, 3)))
    toks = [ident(alias), sym("."), ident(acc), sym("("), sym(")"), ("' in '", " in "), sym("[")]
    for i, v in enumerate(vs):
        if i:
            toks.append(sym(","))
        toks.append(strlit(esc_lit(v)))
    toks.append(sym("]"))
    return ("atom", tuple(toks))


def two_entity_atom(rng, a1, k1, a2, k2):
    acc1 = rng.choice(STRING_ACC.get(k1, ["getName"]))
    acc2 = rng.choice(STRING_ACC.get(k2, ["getName"]))
    op = rng.choice(["==", "!=", "<", ">="])
    return ("atom", tuple([ident(a1), sym("."), ident(acc1), sym("("), sym(")"), sym(op), ident(a2), sym("."), ident(acc2), sym("("), sym(")")]))


def fresh_ident(rng, used, pool=None):
    # (names that begin like HTML / XML entity names, percent escapes or format verbs are ordinary identifiers too)
    pool = pool or ["m", "md", "md2", "c", "cd", "x", "n", "get", "Name", "e", "getName", "v", "vd", "q", "p", "a", "b", "node", "it", "s1", "_t", "mi",
                    "lt", "gt", "amp", "notEmpty", "regexLike", "copyOf", "quot", "timesTwo", "param", "degree", "sect", "u0041", "x41", "nbsp"]
    for _ in range(100):
        c = rng.choice(pool)
        if rng.random() < 0.3:
            c += rng.choice(["", "1", "_x", "Name", "d"])
        if c not in used and c not in RESERVED:
            used.add(c)
            return c
    i = len(used)
    used.add("id%d" % i)
    return "id%d" % i


def random_cond(rng, depth, atom_fn, call_fn=None):
    if depth <= 0 or rng.random() < 0.25:
        if call_fn and rng.random() < 0.3:
            c = call_fn()
            if c:
                return c
        return atom_fn()
    k = rng.random()
    if k < 0.35:
        return mk("or", random_cond(rng, depth - 1, atom_fn, call_fn), random_cond(rng, depth - 1, atom_fn, call_fn))
    if k < 0.7:
        return mk("and", random_cond(rng, depth - 1, atom_fn, call_fn), random_cond(rng, depth - 1, atom_fn, call_fn))
    if k < 0.9:
        return mk("not", random_cond(rng, depth - 1, atom_fn, call_fn))
    return ("paren", random_cond(rng, depth - 1, atom_fn, call_fn))


def random_query(rng, kinds=None, values=None, n_entities=None, depth=3, n_preds=None, structure_only=False, where=None):
    """Returns a Query with: preds, from_items, cond, select_items, tokens/lexemes/kinds."""
    kinds = kinds or KINDS_DEFAULT
    values = values or {}
    q = Query()
    used = set(kinds)
    n_entities = n_entities or rng.choice([1, 1, 2])
    ek = rng.sample(kinds, min(n_entities, len(kinds)))
    q.from_items = [(k, fresh_ident(rng, used)) for k in ek]
    # predicates
    q.preds = []
    n_preds = rng.choice([0, 0, 1, 2, 3]) if n_preds is None else n_preds
    for _ in range(n_preds):
        pname = fresh_ident(rng, used, ["isX", "p", "pred", "check", "p2", "has", "q", "notOnCreate", "regexLike", "ltZero", "ampersand", "copyOf"])
        arity = rng.choice([1, 1, 2]) if len(q.from_items) > 1 else 1
        if rng.random() < 0.12:
            arity = 0                   # no parameters: the body speaks of the FROM aliases directly, the call is `name()`
        pks = rng.sample([k for k, _ in q.from_items], min(arity, len(q.from_items)))
        if arity > 0 and [x for x in q.preds if x.params] and len(q.from_items) > 1 and rng.random() < 0.4:
            # an overload: the name and arity of an earlier predicate, other parameter kinds
            o = rng.choice([x for x in q.preds if x.params])
            opts = [c for c in ([[k] for k, _ in q.from_items] if len(o.params) == 1 else [[a, b] for a, _ in q.from_items for b, _ in q.from_items if a != b])
                    if all([t for t, _ in x.params] != c for x in q.preds if x.name == o.name)]
            if opts:
                used.discard(pname)
                pname, pks = o.name, rng.choice(opts)
        # formal names are arbitrary identifiers: they may coincide with FROM aliases (of any position)
        # or with formals of other predicates, only not with each other, kind names or predicate names
        pused = set(kinds) | {p.name for p in q.preds} | {pname}
        alias_names = [a for _, a in q.from_items]
        params = []
        for k in pks:
            if rng.random() < 0.35:
                cand = [a for a in alias_names if a not in pused]
                if cand:
                    n = rng.choice(cand)
                    pused.add(n)
                    params.append((k, n))
                    continue
            params.append((k, fresh_ident(rng, pused)))

        def patom(params=params):
            if not params:
                k, a = rng.choice(q.from_items)
                return accessor_atom(rng, a, k, values)
            if len(params) == 2 and rng.random() < 0.3:
                return two_entity_atom(rng, params[0][1], params[0][0], params[1][1], params[1][0])
            t, n = rng.choice(params)
            return accessor_atom(rng, n, t, values)
        body = random_cond(rng, rng.choice([0, 1, 2]), patom)
        q.preds.append(Pred(pname, params, body))

    def atom():
        if len(q.from_items) == 2 and rng.random() < 0.25:
            (k1, a1), (k2, a2) = q.from_items
            return two_entity_atom(rng, a1, k1, a2, k2)
        k, a = rng.choice(q.from_items)
        return accessor_atom(rng, a, k, values)

    def call():
        cands = []
        for p in q.preds:
            args = []
            okp = True
            for t, _ in p.params:
                al = [a for k, a in q.from_items if k == t]
                if not al:
                    okp = False
                    break
                args.append(al[0])
            if okp:
                cands.append(("call", p.name, tuple(args)))
        return rng.choice(cands) if cands else None

    if where is None:
        where = rng.random() < 0.85
    q.cond = random_cond(rng, rng.randint(0, depth), atom, call) if where else None
    # select
    q.select_items = []
    q.select_tokens = []
    for _ in range(rng.randint(1, 4)):
        r = rng.random()
        k, a = rng.choice(q.from_items)
        if r < 0.3:
            q.select_items.append(("variable", a))
            q.select_tokens.append([ident(a)])
        elif r < 0.75:
            acc = rng.choice(STRING_ACC.get(k, ["getName"]) + LIST_ACC.get(k, []))
            q.select_items.append(("method_chain", a + "." + acc + "()"))
            q.select_tokens.append([ident(a), sym("."), ident(acc), sym("("), sym(")")])
        else:
            content = rng.choice(["found", "a b", "x,y", "SELECT", "q\\\"uote", "tab\\\\t", "ünï", "WHERE it",
                                  "two  blanks", "tab\there", " lead", "trail ", "nb\u00a0sp", "a   b    c", "line\nbreak",
                                  "uni\\\\u003c", "amp\\\\u0026",
                                  "100%", "%d of %s done", "%!v(MISSING)", "http://x/y", "a // b", "/* c */", "--x", "#tag"])
            q.select_items.append(("string", '"' + content + '"'))
            q.select_tokens.append([strlit(content)])
    flatten(q)
    return q


def flatten(q):
    """(re)compute tokens / kinds / lexemes from the AST fields of q"""
    toks = []
    for p in q.preds:
        toks += [("PREDICATE", "predicate"), ident(p.name), sym("(")]
        for i, (t, n) in enumerate(p.params):
            if i:
                toks.append(sym(","))
            toks += [ident(t), ident(n)]
        toks += [sym(")"), sym("{")] + cond_tokens(p.body) + [sym("}")]
    toks.append(("FROM", "FROM"))
    for i, (k, a) in enumerate(q.from_items):
        if i:
            toks.append(sym(","))
        toks += [ident(k), ("AS", "AS"), ident(a)]
    if q.cond is not None:
        toks.append(("WHERE", "WHERE"))
        toks += cond_tokens(q.cond)
    toks.append(("SELECT", "SELECT"))
    for i, st in enumerate(q.select_tokens):
        if i:
            toks.append(sym(","))
        toks += st
    q.tokens = toks
    q.kinds = [k for k, _ in toks]
    q.lexemes = [t for _, t in toks]
    return q


def clone(q):
    import copy
    c = Query()
    c.preds = [Pred(p.name, list(p.params), p.body) for p in q.preds]
    c.from_items = list(q.from_items)
    c.cond = q.cond
    c.select_items = list(q.select_items)
    c.select_tokens = [list(t) for t in q.select_tokens]
    return c


def plain(q):
    """single-space layout"""
    from vlib import genquery as GQ
    return GQ.render_kinds(q.kinds, q.lexemes)


def value_pool(nodes):
    """(kind, accessor) -> list of values present in the scanned graph"""
    pool = {}
    for n in nodes:
        k = n["type"]
        for acc, f in FIELD.items():
            v = n.get(f)
            if isinstance(v, list):
                for x in v:
                    pool.setdefault((k, acc), set()).add(x)
            elif isinstance(v, str):
                pool.setdefault((k, acc), set()).add(v)
    return {k: sorted(v) for k, v in pool.items()}
