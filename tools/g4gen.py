#!/usr/bin/env python3
"""g4gen: reads antlr/Query.g4 from /repo and emits the grammar and the lexer rules as Lean data
(Cpf/Generated/Grammar.lean). Part of the regenerated tie (DESIGN.md F-grammar).
Fails loudly on anything it does not understand."""
import re, sys


def die(msg):
    sys.stderr.write("g4gen: " + msg + "\n")
    sys.exit(2)


def lean_str(s):
    out = ['"']
    for ch in s:
        if ch == '"':
            out.append('\\"')
        elif ch == '\\':
            out.append('\\\\')
        elif ch == '\n':
            out.append('\\n')
        elif ch == '\t':
            out.append('\\t')
        elif ch == '\r':
            out.append('\\r')
        else:
            out.append(ch)
    out.append('"')
    return ''.join(out)


def lean_char(c):
    m = {'\n': "'\\n'", '\t': "'\\t'", '\r': "'\\r'", '\\': "'\\\\'", "'": "'\\''"}
    return m.get(c, "'%s'" % c)


TOK = re.compile(r"""\s+|//[^\n]*|/\*.*?\*/|'(?:[^'\\]|\\.)*'|\[(?:[^\]\\]|\\.)*\]|->|[A-Za-z_][A-Za-z0-9_]*|[():;|*+?~.]""", re.S)


def tokenize(text):
    pos, toks = 0, []
    while pos < len(text):
        m = TOK.match(text, pos)
        if not m:
            die("cannot tokenize grammar at %r" % text[pos:pos + 30])
        t = m.group(0)
        pos = m.end()
        if t.isspace() or t.startswith('//') or t.startswith('/*'):
            continue
        toks.append(t)
    return toks


def unescape_lit(body):
    out, i = [], 0
    while i < len(body):
        c = body[i]
        if c == '\\':
            n = body[i + 1]
            out.append({'n': '\n', 't': '\t', 'r': '\r', '\\': '\\', "'": "'", '"': '"', ']': ']', '-': '-'}.get(n, n))
            i += 2
        else:
            out.append(c)
            i += 1
    return ''.join(out)


class P:
    def __init__(self, toks, lexer):
        self.t, self.i, self.lexer = toks, 0, lexer
        self.literals = []

    def peek(self):
        return self.t[self.i] if self.i < len(self.t) else None

    def eat(self, x=None):
        t = self.peek()
        if x is not None and t != x:
            die("expected %r, got %r" % (x, t))
        self.i += 1
        return t

    def alt(self):
        xs = [self.seq()]
        while self.peek() == '|':
            self.eat()
            xs.append(self.seq())
        r = xs[-1]
        for x in reversed(xs[:-1]):
            r = ('alt', x, r)
        return r

    def seq(self):
        xs = []
        while self.peek() not in (None, '|', ')', ';', '->'):
            xs.append(self.item())
        if not xs:
            return ('eps',)
        r = xs[-1]
        for x in reversed(xs[:-1]):
            r = ('seq', x, r)
        return r

    def item(self):
        a = self.atom()
        s = self.peek()
        if s == '*':
            self.eat()
            return ('star', a)
        if s == '+':
            self.eat()
            return ('seq', a, ('star', a))
        if s == '?':
            self.eat()
            return ('alt', a, ('eps',))
        return a

    def atom(self):
        t = self.eat()
        if t == '(':
            r = self.alt()
            self.eat(')')
            return r
        if t.startswith("'"):
            lit = unescape_lit(t[1:-1])
            if self.lexer:
                r = None
                for ch in reversed(lit):
                    r = ('chr', ch) if r is None else ('seq', ('chr', ch), r)
                return r if r is not None else ('eps',)
            if lit not in self.literals:
                self.literals.append(lit)
            return ('tok', "'" + lit + "'")
        if t.startswith('['):
            return ('set', charset(t[1:-1]))
        if t == '~':
            inner = self.atom()
            return ('nset', negset(inner))
        if t == '.':
            return ('any',)
        if re.match(r'[A-Za-z_]', t):
            if self.lexer:
                die("lexer rule references another rule (%s): fragments are not supported" % t)
            return ('tok', t) if t[0].isupper() else ('nt', t)
        die("unexpected grammar token %r" % t)


def charset(body):
    s = unescape_lit_set(body)
    return s


def unescape_lit_set(body):
    items, i = [], 0
    chars = []
    while i < len(body):
        c = body[i]
        if c == '\\':
            n = body[i + 1]
            chars.append(({'n': '\n', 't': '\t', 'r': '\r'}.get(n, n), True))
            i += 2
        else:
            chars.append((c, False))
            i += 1
    j = 0
    while j < len(chars):
        c, _ = chars[j]
        if j + 2 < len(chars) and chars[j + 1] == ('-', False):
            items.append((c, chars[j + 2][0]))
            j += 3
        else:
            items.append((c, c))
            j += 1
    return items


def negset(inner):
    # inner is chr | set | alt of those
    if inner[0] == 'chr':
        return [(inner[1], inner[1])]
    if inner[0] == 'set':
        return inner[1]
    if inner[0] == 'alt':
        return negset(inner[1]) + negset(inner[2])
    die("unsupported negated set %r" % (inner,))


def emit_rhs(r):
    k = r[0]
    if k == 'eps':
        return '.eps'
    if k == 'tok':
        return '(.tok %s)' % lean_str(r[1])
    if k == 'nt':
        return '(.nt %s)' % lean_str(r[1])
    if k in ('seq', 'alt'):
        return '(.%s %s %s)' % (k, emit_rhs(r[1]), emit_rhs(r[2]))
    if k == 'star':
        return '(.star %s)' % emit_rhs(r[1])
    die("emit_rhs %r" % (r,))


def emit_re(r):
    k = r[0]
    if k == 'eps':
        return '.eps'
    if k == 'chr':
        return '(.chr %s)' % lean_char(r[1])
    if k == 'any':
        return '.any'
    if k in ('set', 'nset'):
        return '(.%s [%s])' % (k, ', '.join('(%s, %s)' % (lean_char(a), lean_char(b)) for a, b in r[1]))
    if k in ('seq', 'alt'):
        return '(.%s %s %s)' % (k, emit_re(r[1]), emit_re(r[2]))
    if k == 'star':
        return '(.star %s)' % emit_re(r[1])
    die("emit_re %r" % (r,))


FUEL_K = 24


def min_len(r, mt):
    k = r[0]
    if k == 'eps' or k == 'star':
        return 0
    if k == 'tok':
        return 1
    if k == 'nt':
        return mt.get(r[1], 0)
    if k == 'seq':
        return min_len(r[1], mt) + min_len(r[2], mt)
    if k == 'alt':
        return min(min_len(r[1], mt), min_len(r[2], mt))
    die("min_len %r" % (r,))


def rank(r, mt, rt):
    k = r[0]
    if k in ('eps', 'tok'):
        return 0
    if k == 'nt':
        return rt.get(r[1], 0)
    if k == 'seq':
        return max(max(0, rank(r[1], mt, rt) - FUEL_K * min_len(r[2], mt)), max(0, rank(r[2], mt, rt) - FUEL_K * min_len(r[1], mt)))
    if k == 'alt':
        return max(rank(r[1], mt, rt), rank(r[2], mt, rt))
    if k == 'star':
        return rank(r[1], mt, rt)
    die("rank %r" % (r,))


def fuel_tables(prules):
    """Hints for the fuel bound of the Lean recogniser (checked in Lean, not trusted): a lower bound on the number
    of tokens each non-terminal derives (greatest fixpoint from below) and a rank such that
    rank(n) >= 1 + rank(rhs(n)), where a sibling that must consume m tokens pays for FUEL_K*m of rank."""
    mt = {n: 0 for n, _ in prules}
    for _ in range(200):
        new = {n: min_len(r, mt) for n, r in prules}
        new = {n: min(v, 50) for n, v in new.items()}
        if new == mt:
            break
        mt = new
    rt = {n: 1 for n, _ in prules}
    for _ in range(500):
        new = {n: 1 + rank(r, mt, rt) for n, r in prules}
        if new == rt:
            break
        if max(new.values()) > 5000:
            die("rank table does not converge: the grammar has a cycle that consumes no token (left recursion?)")
        rt = new
    return mt, rt


def main():
    src, out = sys.argv[1], sys.argv[2]
    text = open(src, encoding='utf-8').read()
    toks = tokenize(text)
    if toks[0] != 'grammar':
        die("not a combined grammar")
    i = toks.index(';') + 1
    rules = []
    while i < len(toks):
        name = toks[i]
        if toks[i + 1] != ':':
            die("expected ':' after rule name %s" % name)
        j = i + 2
        depth = 0
        while toks[j] != ';' or depth:
            j += 1
        rules.append((name, toks[i + 2:j]))
        i = j + 1
    literals = []
    prules, lrules = [], []
    for name, body in rules:
        if name[0].islower():
            p = P(body, False)
            p.literals = literals
            r = p.alt()
            if p.peek() is not None:
                die("trailing tokens in rule " + name)
            prules.append((name, r))
        else:
            skip = False
            if '->' in body:
                k = body.index('->')
                if body[k + 1:] != ['skip']:
                    die("unsupported lexer command in " + name)
                skip = True
                body = body[:k]
            p = P(body, True)
            r = p.alt()
            if p.peek() is not None:
                die("trailing tokens in lexer rule " + name)
            lrules.append((name, r, skip))
    L = []
    L.append("-- GENERATED by /verif/tools/g4gen.py from /repo/sourcecode-parser/antlr/Query.g4. Do not edit.")
    L.append("import Cpf.Query.Ebnf\n")
    L.append("namespace Cpf.Generated\nopen Cpf.Query\n")
    L.append("def grammar : List (String × Rhs) := [")
    L.append(",\n".join("  (%s, %s)" % (lean_str(n), emit_rhs(r)) for n, r in prules))
    L.append("]\n")
    L.append("def startRule : String := %s\n" % lean_str(prules[0][0]))
    mt, rt = fuel_tables(prules)
    L.append("/-- hints for the fuel bound (checked by `decide` in Cpf.Props.C11, not trusted) -/")
    L.append("def minLenTable : List (String × Nat) := [%s]" % ", ".join("(%s, %d)" % (lean_str(n), mt[n]) for n, _ in prules))
    L.append("def rankTable : List (String × Nat) := [%s]\n" % ", ".join("(%s, %d)" % (lean_str(n), rt[n]) for n, _ in prules))
    L.append("/-- Lexer rules in ANTLR priority order: implicit literals of the parser rules in order of first\n    appearance, then the named lexer rules in file order. -/")
    L.append("def lexRules : List LexRule := [")
    items = []
    for lit in literals:
        r = None
        for ch in reversed(lit):
            r = ('chr', ch) if r is None else ('seq', ('chr', ch), r)
        items.append("  { kind := %s, re := %s, skip := false }" % (lean_str("'" + lit + "'"), emit_re(r)))
    for n, r, skip in lrules:
        items.append("  { kind := %s, re := %s, skip := %s }" % (lean_str(n), emit_re(r), 'true' if skip else 'false'))
    L.append(",\n".join(items))
    L.append("]\n")
    L.append("end Cpf.Generated")
    open(out, 'w', encoding='utf-8').write("\n".join(L) + "\n")


if __name__ == '__main__':
    main()
