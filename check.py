#!/usr/bin/env python3
"""Entry point of every check:  ./check <property-id> <quick|thorough>   (see DESIGN.md §2.3)

1. rebuild harness / CLI / factgen from /repo's working tree (hooks on: -tags verif)
2. regenerate lean/Cpf/Generated from the source, `lake build` the property's theorems, audit axioms
3. run the correspondence (model vs implementation) and the oracle (spec vs implementation)
4. a broken obligation or correspondence triggers the search for a concrete failing input
5. write evidence/<id>.json; exit 1 with a VIOLATION line iff something not in known_findings.json fails
"""
import importlib, json, os, sys, time, traceback

sys.path.insert(0, os.path.dirname(os.path.abspath(__file__)))
from vlib import common as C


def main():
    if len(sys.argv) < 3:
        print("usage: check <Cxx> <quick|thorough> | check --replay <file>")
        return 2
    if sys.argv[1] == "--replay":
        return replay(sys.argv[2])
    pid, tier = sys.argv[1], sys.argv[2]
    if tier not in ("quick", "thorough"):
        print("tier must be quick or thorough")
        return 2
    seed = int(os.environ.get("VERIF_SEED", "1"))
    run = C.Run(pid, tier, seed)
    try:
        t = C.build_go()
        run.extra["build_s"] = round(t, 1)
    except C.BuildError as e:
        # the tree does not build with hooks on: nothing can be shown to hold
        run.broken_obligation("build", str(e)[-2000:])
        return run.finish()
    ok, msg = C.run_factgen()
    if not ok:
        run.broken_obligation("factgen", "the fact extractor no longer understands the source (tie broken): " + msg[-2000:])
    if ok and os.environ.get("CPF_NO_ADAPTIVE") != "1":
        run.changed = C.changed_functions(pid)
        if run.changed and tier == "quick":
            run.depth = "thorough"
            C.log("adaptive depth: %d function(s) relevant to %s differ from the validated tree (%s%s): thorough-size generators" %
                  (len(run.changed), pid, ", ".join(run.changed[:4]), " …" if len(run.changed) > 4 else ""))
        run.extra["adaptive_depth"] = dict(changed_functions=run.changed[:40], generator_depth=run.depth)
    mod = importlib.import_module("checks." + pid.lower())
    proof_modules = getattr(mod, "LEAN_MODULES", ["Cpf.Props." + pid])
    if ok:
        pr = C.lean_prove(pid, proof_modules, thorough=(tier == "thorough"))
        run.proof = pr
        for name, detail in pr["failed"]:
            run.broken_obligation("theorem:" + name, detail)
    try:
        mod.run(run)
    except Exception:
        run.broken_obligation("check-crashed", traceback.format_exc()[-3000:])
    return run.finish()


def replay(path):
    """Re-run the (deterministic) check that wrote this replay file — same property, tier and seed — on the current
    tree and report whether the recorded violation (its signature / the obligation that no longer checked) is there
    again. Exit 1 and a VIOLATION line if it is, exit 0 if it is gone."""
    import re, subprocess
    rp = json.load(open(path))
    pid = rp["property"]
    m = re.match(r"(C\d\d)_(quick|thorough)_(\d+)_", os.path.basename(path))
    tier = rp.get("tier") or (m.group(2) if m else "quick")
    seed = str(rp.get("seed") or (m.group(3) if m else 1))
    want = [rp["signature"]] if "signature" in rp else [x["name"] for x in rp.get("no_longer_checks", [])]
    env = dict(os.environ, VERIF_SEED=seed, CPF_REPLAY_KEEP="1")
    if rp.get("depth") == "quick":
        env["CPF_NO_ADAPTIVE"] = "1"
    p = subprocess.run([sys.executable, os.path.abspath(__file__), pid, tier], env=env, stdout=subprocess.PIPE, stderr=subprocess.STDOUT, text=True)
    again = []
    for line in p.stdout.splitlines():
        mm = re.match(r"VIOLATION property=%s replay=(\S+)" % pid, line)
        if not mm:
            continue
        try:
            r2 = json.load(open(mm.group(1)))
        except Exception:
            continue
        got = [r2["signature"]] if "signature" in r2 else [x["name"] for x in r2.get("no_longer_checks", [])]
        if set(got) & set(want):
            again.append((mm.group(1), line))
    if again:
        print("replay of %s: the recorded violation is reproduced on the current tree (%s)" % (path, ", ".join(want)[:200]))
        print(again[0][1])
        return 1
    print("replay of %s: not reproduced on the current tree (%s); the check run ended with rc=%d" % (path, ", ".join(want)[:200], p.returncode))
    return 0


if __name__ == "__main__":
    sys.exit(main())
