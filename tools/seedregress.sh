#!/bin/bash
# usage: seedregress.sh [name-pattern...]   : every stored seeded change against its property's quick check at plain
# quick depth (CPF_NO_ADAPTIVE=1). Prints one line per seed: CAUGHT (concrete replay) / BROKEN-ONLY / MISSED / NOAPPLY.
# With CPF_REPO set (a scratch clone or worktree of the repository, e.g. $VP_RUN_REPO inside `vp run --with-repo`)
# the patches are applied there and the checks read that tree, so several instances can run side by side, each in
# its own snapshot of /verif and of the repository; without it, /repo is patched and restored.
V="$(cd "$(dirname "$0")/.." && pwd)"
R="${CPF_REPO:-/repo}"
if [ -n "$(git -C "$R" status --porcelain --untracked-files=no)" ]; then echo "repository $R not clean"; exit 2; fi
[ $# -eq 0 ] && set -- '*'
for pat in "$@"; do
for d in "$V"/seeded/$pat/; do
  [ -f "$d/patch.diff" ] || continue
  n=$(basename "$d"); P=${n%%-*}
  if ! git -C "$R" apply --check "$d/patch.diff" 2>/dev/null; then echo "NOAPPLY $n"; continue; fi
  git -C "$R" apply "$d/patch.diff"
  out=$(cd "$V" && CPF_NO_ADAPTIVE=1 ./check "$P" quick 2>&1 | grep -a "^VIOLATION" | grep -v KNOWN)
  git -C "$R" checkout -- .
  if [ -z "$out" ]; then echo "MISSED $n"
  elif echo "$out" | grep -qv "no-failing-input-found"; then echo "CAUGHT $n"
  else echo "BROKEN-ONLY $n"; fi
done
done
