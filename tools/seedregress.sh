#!/bin/bash
# usage: seedregress.sh [name-pattern]   : every stored seeded change against its property's quick check at plain
# quick depth (CPF_NO_ADAPTIVE=1). Prints one line per seed: CAUGHT (concrete replay) / BROKEN-ONLY / MISSED / NOAPPLY.
cd /repo || exit 2
if [ -n "$(git status --porcelain --untracked-files=no)" ]; then echo "repo not clean"; exit 2; fi
for d in /verif/seeded/${1:-*}/; do
  n=$(basename "$d"); P=${n%%-*}
  if ! git -C /repo apply --check "$d/patch.diff" 2>/dev/null; then echo "NOAPPLY $n"; continue; fi
  git -C /repo apply "$d/patch.diff"
  out=$(cd /verif && CPF_NO_ADAPTIVE=1 ./check "$P" quick 2>&1 | grep -a "^VIOLATION" | grep -v KNOWN)
  git -C /repo checkout -- .
  if echo "$out" | grep -q "no-failing-input-found"; then echo "BROKEN-ONLY $n"
  elif [ -n "$out" ]; then echo "CAUGHT $n"
  else echo "MISSED $n"; fi
done
