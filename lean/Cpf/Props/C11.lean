/-
  C11 — a string is accepted as a query exactly when it is a sentence of the documented grammar.

  Spec: `Derives Generated.grammar (.nt "query") ts` for the token list of the input, the grammar being
  *read from Query.g4 on every run* (Cpf/Generated/Grammar.lean), and no lexer error.
  Model: `parseQuery` (Cpf/Query/Listener.lean) = lexer + list-of-successes recogniser + listener walk.
  The theorems are generic in the grammar, so an edit of Query.g4 re-proves.
  Tie: the real recogniser is ANTLR's generated parser; it is tied to the model by the exhaustive
  correspondence of checks/c11.py (all sentences up to N tokens and their single-token edits).
-/
import Cpf.Lemmas.Recog
import Cpf.Lemmas.Dedup
import Cpf.Lemmas.Fuel
import Cpf.Query.Listener
import Cpf.Generated.Grammar

namespace Cpf.Props.C11
open Cpf.Query Cpf.Go

/-- Whatever the model accepts is a sentence (for every grammar, every fuel). -/
theorem C11_accept_sound (g : Grammar) (f : Nat) (s : String) (ts : List Token)
    (h : accepts g f s ts = true) : Derives g (.nt s) ts := by
  simp only [accepts, List.any_eq_true] at h
  obtain ⟨p, hp, he⟩ := h
  obtain ⟨h1, h2⟩ := parse_sound g f (.nt s) ts p (parseD_sub g f (.nt s) ts p hp)
  have : p.2 = [] := by simpa using he
  rw [this, List.append_nil] at h1
  rw [h1]; exact h2

/-- Every sentence is accepted by the model once the fuel is large enough (for every grammar). -/
theorem C11_accept_complete (g : Grammar) (s : String) (ts : List Token) (h : Derives g (.nt s) ts) :
    ∃ f0, ∀ f, f0 ≤ f → accepts g f s ts = true := by
  obtain ⟨f0, hf⟩ := parse_complete g h
  refine ⟨f0, fun f hle => ?_⟩
  obtain ⟨forest, hm, _⟩ := hf f hle []
  obtain ⟨q, hq, he⟩ := parseD_complete g f (.nt s) ts (forest, []) (by simpa using hm)
  simp only [accepts, List.any_eq_true]
  exact ⟨q, hq, by simp at he; simp [he]⟩

/-- Accepted (with some fuel) iff grammatical. -/
theorem C11_accept_iff (g : Grammar) (s : String) (ts : List Token) :
    (∃ f, accepts g f s ts = true) ↔ Derives g (.nt s) ts :=
  ⟨fun ⟨f, h⟩ => C11_accept_sound g f s ts h,
   fun h => let ⟨f0, hf⟩ := C11_accept_complete g s ts h; ⟨f0, hf f0 (Nat.le_refl _)⟩⟩

/-- The full statement for the fuel the driver actually uses. Its completeness half needs a bound on
    derivation height in terms of sentence length (true for grammars without epsilon or unit cycles); the bound
    is `Cpf.Lemmas.Fuel.parse_complete_bounded`, instantiated for the regenerated grammar in `C11_full_proved`. -/
def C11_full : Prop :=
  ∀ ts : List Token, Derives Generated.grammar (.nt Generated.startRule) ts →
    accepts Generated.grammar (fuelFor ts) Generated.startRule ts = true

/-- The regenerated grammar, with the two hint tables g4gen computes for it, satisfies the checkable condition of
    `Cpf.Lemmas.Fuel`: no loop body can be empty, the token lower bounds are consistent, and the ranks decrease
    along every expansion that consumes nothing (so the grammar has no cycle that consumes no token). -/
theorem C11_fuel_tables_wf :
    wfB 24 Generated.grammar Generated.minLenTable Generated.rankTable = true := by decide

/-- **C11 (completeness for the fuel the driver uses)**: every sentence of the regenerated grammar is accepted by
    the model with fuel `fuelFor ts = 24·(|ts| + 2)`. -/
theorem C11_full_proved : C11_full := by
  intro ts h
  have hw := wf_of_wfB C11_fuel_tables_wf
  have hr : tabGet Generated.rankTable Generated.startRule ≤ 48 := by decide
  obtain ⟨forest, hm, _⟩ := parse_complete_bounded hw h rfl (fuelFor ts) (by simp only [rank, fuelFor]; omega) []
  obtain ⟨q, hq, he⟩ := parseD_complete _ _ _ _ (forest, []) (by simpa using hm)
  simp only [accepts, List.any_eq_true]
  exact ⟨q, hq, by simp at he; simp [he]⟩

/-- accepted by the driver's model ⇔ grammatical -/
theorem C11_accept_iff_fixed_fuel (ts : List Token) :
    accepts Generated.grammar (fuelFor ts) Generated.startRule ts = true ↔ Derives Generated.grammar (.nt Generated.startRule) ts :=
  ⟨fun h => C11_accept_sound _ _ _ _ h, fun h => C11_full_proved ts h⟩

/-- every sentence gets a parse tree from the model's `ParseQuery` (it is not answered with "syntax error") -/
theorem C11_sentence_has_tree (ts : List Token) (h : Derives Generated.grammar (.nt Generated.startRule) ts) :
    ∃ tree, (parsesOf Generated.grammar (fuelFor ts) Generated.startRule ts).head? = some tree := by
  have hw := wf_of_wfB C11_fuel_tables_wf
  have hr : tabGet Generated.rankTable Generated.startRule ≤ 48 := by decide
  obtain ⟨forest, hm, _⟩ := parse_complete_bounded hw h rfl (fuelFor ts) (by simp only [rank, fuelFor]; omega) []
  have hm' : (forest, []) ∈ parse Generated.grammar (fuelFor ts) (.nt Generated.startRule) ts := by simpa using hm
  obtain ⟨q, hq, he⟩ := parseD_complete _ _ _ _ (forest, []) hm'
  have hq' := parseD_sub _ _ _ _ q hq
  obtain ⟨f', hf⟩ : ∃ f', fuelFor ts = f' + 1 := ⟨fuelFor ts - 1, by simp only [fuelFor]; omega⟩
  have hmem : ∃ t, t ∈ parsesOf Generated.grammar (fuelFor ts) Generated.startRule ts := by
    rw [hf] at hq'
    simp only [parse] at hq'
    cases hl : lookup Generated.grammar Generated.startRule with
    | none => simp [hl] at hq'
    | some rhs =>
        simp only [hl, List.mem_map] at hq'
        obtain ⟨p, _, hpe⟩ := hq'
        refine ⟨PT.node Generated.startRule p.1, ?_⟩
        simp only [parsesOf, List.mem_filterMap]
        refine ⟨q, hq, ?_⟩
        have h2 : q.2 = [] := by simpa using he
        rw [← hpe] at h2 ⊢
        simp only at h2
        simp [h2]
  obtain ⟨t, ht⟩ := hmem
  cases hh : (parsesOf Generated.grammar (fuelFor ts) Generated.startRule ts).head? with
  | some tree => exact ⟨tree, rfl⟩
  | none =>
      rw [List.head?_eq_none_iff] at hh
      rw [hh] at ht
      simp at ht

/-- The model's `ParseQuery` never returns a structure for an input that is not a sentence:
    anything that is not a sentence gets a diagnostic (no results). -/
theorem C11_reject_partial (ts : List Token)
    (h : ¬ Derives Generated.grammar (.nt Generated.startRule) ts) :
    ∃ m, parseQueryTokens Generated.grammar Generated.startRule ts = Outcome.diag m := by
  unfold parseQueryTokens
  cases hh : (parsesOf Generated.grammar (fuelFor ts) Generated.startRule ts).head? with
  | none => exact ⟨_, rfl⟩
  | some tree =>
      exfalso; apply h
      have hmem : tree ∈ parsesOf Generated.grammar (fuelFor ts) Generated.startRule ts := List.mem_of_head? hh
      simp only [parsesOf, List.mem_filterMap] at hmem
      obtain ⟨p, hp, hsome⟩ := hmem
      obtain ⟨h1, h2⟩ := parse_sound _ _ _ _ p (parseD_sub _ _ _ _ p hp)
      obtain ⟨forest, rest⟩ := p
      cases forest with
      | nil => simp at hsome
      | cons t tl =>
        cases tl with
        | cons _ _ => simp at hsome
        | nil =>
          cases rest with
          | cons _ _ => simp at hsome
          | nil =>
            simp only [List.append_nil] at h1
            rw [h1]; exact h2

/-- A lexer error is a syntax diagnostic as well. -/
theorem C11_lex_error (rules : List LexRule) (g : Grammar) (s : String) (cs : List Char) (ts : List Token) (n : Nat)
    (h : lex rules cs = (ts, n + 1)) : ∃ m, parseQuery rules g s cs = Outcome.diag m := by
  unfold parseQuery; rw [h]; exact ⟨_, rfl⟩

/-! Non-vacuity: a small grammar with a loop, a sentence of it, and the recogniser accepting it. -/
private def g0 : Grammar := [("s", .seq (.tok "A") (.star (.tok "B")))]
private def tA : Token := ⟨"A", "a"⟩
private def tB : Token := ⟨"B", "b"⟩

example : Derives g0 (.nt "s") [tA, tB, tB] :=
  Derives.nt (r := .seq (.tok "A") (.star (.tok "B"))) (by decide)
    (Derives.seq (u := [tA]) (Derives.tok rfl)
      (Derives.starCons (u := [tB]) (Derives.tok rfl) (Derives.starCons (u := [tB]) (Derives.tok rfl) Derives.starNil)))

example : ¬ Derives g0 (.nt "s") [tB] := by
  intro h
  have ⟨f0, hf⟩ := C11_accept_complete g0 "s" [tB] h
  have := C11_accept_sound g0 (f0 + 3) "s" [tB] (hf (f0 + 3) (by omega))
  have hs := C11_accept_complete g0 "s" [tB] this
  obtain ⟨f1, hf1⟩ := hs
  have h3 := hf1 (f1 + 3) (by omega)
  simp only [accepts, List.any_eq_true] at h3
  obtain ⟨p, hp, _⟩ := h3
  have hp' := parseD_sub _ _ _ _ p hp
  simp [parse, lookup, g0, tB] at hp'

end Cpf.Props.C11
