module cpfh

go 1.22.0

require (
	github.com/antlr4-go/antlr/v4 v4.13.1
	github.com/expr-lang/expr v1.16.9
	github.com/shivasurya/code-pathfinder/sourcecode-parser v0.0.0
	github.com/smacker/go-tree-sitter v0.0.0-20240625050157-a31a98a7c0f6
)

require (
	github.com/fatih/color v1.17.0 // indirect
	github.com/google/uuid v1.6.0 // indirect
	github.com/joho/godotenv v1.5.1 // indirect
	github.com/mattn/go-colorable v0.1.13 // indirect
	github.com/mattn/go-isatty v0.0.20 // indirect
	github.com/owenrumney/go-sarif/v2 v2.3.3 // indirect
	github.com/posthog/posthog-go v1.2.20 // indirect
	github.com/spf13/cobra v1.8.1 // indirect
	github.com/spf13/pflag v1.0.5 // indirect
	golang.org/x/exp v0.0.0-20240823005443-9b4947da3948 // indirect
	golang.org/x/sys v0.18.0 // indirect
)

replace github.com/shivasurya/code-pathfinder/sourcecode-parser => /repo/sourcecode-parser
