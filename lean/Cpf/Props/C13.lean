/-
  C13 — predicates and aliases are transparent abstractions.

  Model: Cpf.Query.Subst (ReplacePredicateVariables / renameIdentifiers / replaceCall as they are after the
  `fix:` that made expansion identifier-aware) and Cpf.Query.Listener (matchPredicate).
  What is proved here, for all inputs:
    * declaring further predicates that are never called (fresh names) changes nothing   (C13_unused*)
    * reordering predicate declarations changes nothing                                   (C13_reorder*)
    * a condition that is exactly a call `p(a,b)` expands to exactly `(body[formals := actuals])`   (C13_call_exact)
    * renaming never touches anything when no formal occurs / with the identity renaming  (rename lemmas)
    * a call standing anywhere in a condition is replaced by the replacement text, the text before and after it is
      kept character for character (C13_call_in_context; `Reach`: the rewriter arrives at the call at the start of
      a token, not after a dot, having kept what it read)                                  (Cpf.Lemmas.Subst)
    * a query with one call and the query with the parenthesised, renamed body written in its place hand the same
      condition text to the evaluator (C13_inline)
    * renaming formals to arguments is simultaneous and token-wise (C13_rename_tokenwise, C13_tokens_partition);
      one matched invocation expands as the call-in-context theorem says (C13_expand_one_in_context)
    * expansion and renaming change the text only at identifiers they are about: a condition without such an
      identifier is returned as it is, for every text (C13_uncalled_untouched, C13_rename_untouched)
  The general inlining statement (`C13_inline_full`) also needs "substituting a parenthesised expression
  for a call commutes with parsing the condition" (the evaluator's parser is expr-lang, modelled); it is *not*
  proved — it is covered by the correspondence (model vs real expansion, text for text) and by the oracle (the
  generator's own capture-free inlining, results compared on the real engine) in checks/c13.py.
-/
import Cpf.Query.Cli
import Cpf.Lemmas.Subst

namespace Cpf.Props.C13
open Cpf.Query

/-- Expansion only looks at the calls that occur in the query. -/
theorem C13_unused_decl_ignored_by_expansion (pq : ParsedQuery) (extra : List Predicate) :
    replacePredicateVariables { pq with predicates := pq.predicates ++ extra } = replacePredicateVariables pq := rfl

/-- Matching a call is unaffected by additional declarations with other names. -/
theorem C13_unused_match (decls extra : List Predicate) (name : String) (args : List Param)
    (h : ∀ p ∈ extra, p.name ≠ name) :
    matchPredicate (decls ++ extra) name args = matchPredicate decls name args := by
  unfold matchPredicate
  have : (extra.filter (fun p => p.name == name)) = [] := by
    rw [List.filter_eq_nil_iff]
    intro p hp
    simpa using h p hp
  simp [List.filter_append, this]

theorem C13_unused_match_front (decls extra : List Predicate) (name : String) (args : List Param)
    (h : ∀ p ∈ extra, p.name ≠ name) :
    matchPredicate (extra ++ decls) name args = matchPredicate decls name args := by
  unfold matchPredicate
  have : (extra.filter (fun p => p.name == name)) = [] := by
    rw [List.filter_eq_nil_iff]
    intro p hp
    simpa using h p hp
  simp [List.filter_append, this]

/-- Reordering the declarations does not change which predicate a call resolves to. -/
theorem C13_reorder_match (d1 d2 : List Predicate) (hp : d1.Perm d2) (name : String) (args : List Param) :
    matchPredicate d1 name args = matchPredicate d2 name args := by
  unfold matchPredicate
  have h := (hp.filter (fun p => p.name == name)).filter (fun p => paramTypesMatch p.params args)
  generalize (d1.filter (fun p => p.name == name)).filter (fun p => paramTypesMatch p.params args) = l1 at h
  generalize (d2.filter (fun p => p.name == name)).filter (fun p => paramTypesMatch p.params args) = l2 at h
  match l1, l2, h with
  | [], l2, h => rw [List.nil_perm] at h; subst h; rfl
  | [a], l2, h => rw [List.singleton_perm] at h; subst h; rfl
  | a :: b :: t, l2, h =>
      have hl := h.length_eq
      match l2, hl with
      | x :: y :: t', _ => rfl

/-! ### character-level facts about the scanner -/

def IdentTail (s : List Char) : Prop := ∀ c ∈ s, (isLetter c || isDigit c) = true

theorem spanIdent_append (s : List Char) (hs : IdentTail s) (c : Char) (r : List Char)
    (hc : (isLetter c || isDigit c) = false) : spanIdent (s ++ c :: r) = (s, c :: r) := by
  induction s with
  | nil => simp [spanIdent, hc]
  | cons x xs ih =>
      have hx : (isLetter x || isDigit x) = true := hs x (by simp)
      have hxs : IdentTail xs := fun c hc => hs c (by simp [hc])
      simp [spanIdent, hx, ih hxs]

theorem spanIdent_all (s : List Char) (hs : IdentTail s) : spanIdent s = (s, []) := by
  induction s with
  | nil => simp [spanIdent]
  | cons x xs ih =>
      have hx : (isLetter x || isDigit x) = true := hs x (by simp)
      have hxs : IdentTail xs := fun c hc => hs c (by simp [hc])
      simp [spanIdent, hx, ih hxs]

theorem hasPrefix_self_append (a b : List Char) : Go.Str.hasPrefix (a ++ b) a = true := by
  induction a with
  | nil => cases b <;> simp [Go.Str.hasPrefix]
  | cons x xs ih => simp [Go.Str.hasPrefix, ih]

/-- **C13 (call = body)**: when the whole condition is the call `name(args)`, the evaluator is handed
    exactly the replacement text — nothing of the call is left, nothing else is touched. -/
theorem C13_call_exact (c : Char) (tl : List Char) (hc : isLetter c = true) (htl : IdentTail tl)
    (args body : List Char) (hargs : ∃ r, args = '(' :: r) :
    replaceCall (c :: tl ++ args) (c :: tl) args body = body := by
  obtain ⟨r, rfl⟩ := hargs
  unfold replaceCall rewriteIdentifiers
  have hq : (c == '"') = false := by
    cases h : (c == '"') with
    | false => rfl
    | true => rw [beq_iff_eq] at h; subst h; simp [isLetter] at hc
  have hspan : spanIdent (tl ++ '(' :: r) = (tl, '(' :: r) :=
    spanIdent_append tl htl '(' r (by decide)
  simp only [List.cons_append, List.length_cons, rewriteAux, hq, hc, Bool.false_eq_true, ↓reduceIte, hspan]
  have hp : Go.Str.hasPrefix ('(' :: r) ('(' :: r) = true := by
    simpa using hasPrefix_self_append ('(' :: r) []
  simp [hp]
  cases (List.length (tl ++ '(' :: r)) <;> simp [rewriteAux]

/-- Renaming with no bindings is the identity on identifiers. -/
theorem renLookup_nil (k : List Char) : renLookup [] k = none := rfl

/-- A parameter that is a whole condition-identifier is replaced by the argument. -/
theorem C13_rename_ident (c : Char) (tl : List Char) (hc : isLetter c = true) (htl : IdentTail tl)
    (actual : List Char) :
    renameIdentifiers (c :: tl) [(c :: tl, actual)] = actual := by
  unfold renameIdentifiers rewriteIdentifiers
  have hq : (c == '"') = false := by
    cases h : (c == '"') with
    | false => rfl
    | true => rw [beq_iff_eq] at h; subst h; simp [isLetter] at hc
  simp only [List.length_cons, rewriteAux, hq, hc, Bool.false_eq_true, ↓reduceIte, spanIdent_all tl htl]
  simp [renLookup]
  cases tl.length <;> simp [rewriteAux]

/-! ### expansion inside a condition -/

open Cpf.Lemmas.Subst in
/-- **C13 (call in context)**: wherever the call `name(args)` stands in the condition as a token of its own (the
    rewriter reaches it at the start of a token, not after a dot, having kept what it read before — strings,
    numbers, other identifiers), and no further call follows, the condition handed to the evaluator is the text
    before, the replacement, and the text after: `p ++ body ++ post`. -/
theorem C13_call_in_context (c : Char) (tl a post p s body : List Char)
    (hc : isLetter c = true) (htl : IdentChars tl)
    (hreach : Reach (callRw (c :: tl) ('(' :: a) body) false s p false (c :: tl ++ '(' :: a ++ post))
    (hpost : ∀ x ∈ idents post, ¬ (x.1 = c :: tl ∧ x.2.1 = false ∧ Go.Str.hasPrefix x.2.2 ('(' :: a) = true)) :
    replaceCall s (c :: tl) ('(' :: a) body = p ++ body ++ post :=
  replaceCall_in_context c tl a post p s body hc htl hreach hpost

open Cpf.Lemmas.Subst in
/-- A condition in which the predicate is not called (its name does not stand there as an identifier followed by
    the argument list, or only after a dot) is left exactly as it is — for every text. -/
theorem C13_uncalled_untouched (s name args body : List Char)
    (h : ∀ x ∈ idents s, ¬ (x.1 = name ∧ x.2.1 = false ∧ Go.Str.hasPrefix x.2.2 args = true)) :
    replaceCall s name args body = s :=
  replaceCall_untouched s name args body h

open Cpf.Lemmas.Subst in
/-- Renaming formals touches only identifiers that are formals and do not follow a dot: a body without them (string
    literals and member names do not count) is unchanged — for every text. -/
theorem C13_rename_untouched (s : List Char) (ren : List (List Char × List Char))
    (h : ∀ x ∈ idents s, x.2.1 = true ∨ renLookup ren x.1 = none) : renameIdentifiers s ren = s :=
  renameIdentifiers_untouched s ren h

open Cpf.Lemmas.Subst in
/-- Non-vacuity: in `a&&!p(m)` the rewriter reaches the call `p(m)` having kept `a&&!`; the theorem gives the
    expansion `a&&!(B)`. -/
example : replaceCall ['a', '&', '&', '!', 'p', '(', 'm', ')'] ['p'] ['(', 'm', ')'] ['(', 'B', ')']
    = ['a', '&', '&', '!'] ++ ['(', 'B', ')'] ++ [] := by
  apply C13_call_in_context 'p' [] ['m', ')'] [] ['a', '&', '&', '!'] _ ['(', 'B', ')'] (by decide) (by intro c hc; cases hc)
  · have h0 : Reach (callRw ['p'] ['(', 'm', ')'] ['(', 'B', ')']) false ['p', '(', 'm', ')'] [] false ['p', '(', 'm', ')'] := .refl _ _
    have h1 := Reach.chr (rw := callRw ['p'] ['(', 'm', ')'] ['(', 'B', ')']) false '!' ['p', '(', 'm', ')'] (by decide) (by decide) (by decide) h0
    have h2 := Reach.chr (rw := callRw ['p'] ['(', 'm', ')'] ['(', 'B', ')']) false '&' _ (by decide) (by decide) (by decide) h1
    have h3 := Reach.chr (rw := callRw ['p'] ['(', 'm', ')'] ['(', 'B', ')']) false '&' _ (by decide) (by decide) (by decide) h2
    exact Reach.ident (rw := callRw ['p'] ['(', 'm', ')'] ['(', 'B', ')']) false 'a' ['&', '&', '!', 'p', '(', 'm', ')']
      (p := ['&', '&', '!']) (m' := false) (r := ['p', '(', 'm', ')']) (by decide) (by decide) h3
  · intro x hx; simp [idents, identsAux] at hx

open Cpf.Lemmas.Subst in
/-- `ReplacePredicateVariables` for one matched invocation: the call, wherever it stands as a token of its own, is
    replaced by the parenthesised body with the formals renamed to the arguments; the rest of the condition is kept. -/
theorem C13_expand_one_in_context (inv : Invocation) (expr p post : List Char) (c : Char) (tl : List Char)
    (hname : inv.name.toList = c :: tl) (hc : isLetter c = true) (htl : IdentChars tl)
    (hm : (inv.matched.name == "") = false) (hlen : inv.matched.params.length = inv.args.length)
    (hreach : Reach (callRw (c :: tl) ('(' :: (Go.Str.join [','] (inv.args.map (fun p => p.name.toList)) ++ [')']))
                  ('(' :: renameIdentifiers inv.matched.body.toList
                      ((inv.matched.params.map (fun p => p.name.toList)).zip (inv.args.map (fun p => p.name.toList))) ++ [')']))
                false expr p false
                (c :: tl ++ '(' :: (Go.Str.join [','] (inv.args.map (fun p => p.name.toList)) ++ [')']) ++ post))
    (hpost : ∀ x ∈ idents post, ¬ (x.1 = c :: tl ∧ x.2.1 = false ∧
        Go.Str.hasPrefix x.2.2 ('(' :: (Go.Str.join [','] (inv.args.map (fun p => p.name.toList)) ++ [')'])) = true)) :
    expandOne expr inv
      = p ++ ('(' :: renameIdentifiers inv.matched.body.toList
              ((inv.matched.params.map (fun p => p.name.toList)).zip (inv.args.map (fun p => p.name.toList))) ++ [')']) ++ post := by
  unfold expandOne
  simp only [hm, hlen, bne_self_eq_false, Bool.or_self, Bool.false_eq_true, if_false, hname]
  exact C13_call_in_context c tl _ post p expr _ hc htl hreach hpost

open Cpf.Lemmas.Subst in
/-- **C13 (a call and its inlined body give the evaluator the same text)**: a query whose condition calls a
    predicate once, and the query written with the parenthesised body (formals replaced by the arguments) in the
    place of the call, hand the same condition text to the evaluator — hence the same condition structure
    (`condOfText`) and, the FROM list being the same, the same answer. -/
theorem C13_inline (pq pq' : ParsedQuery) (inv : Invocation) (p post : List Char) (c : Char) (tl : List Char)
    (hinv : pq.invocations = [inv]) (hinv' : pq'.invocations = [])
    (hne : (pq.expression == "") = false) (hne' : (pq'.expression == "") = false)
    (hname : inv.name.toList = c :: tl) (hc : isLetter c = true) (htl : IdentChars tl)
    (hm : (inv.matched.name == "") = false) (hlen : inv.matched.params.length = inv.args.length)
    (hreach : Reach (callRw (c :: tl) ('(' :: (Go.Str.join [','] (inv.args.map (fun p => p.name.toList)) ++ [')']))
                  ('(' :: renameIdentifiers inv.matched.body.toList
                      ((inv.matched.params.map (fun p => p.name.toList)).zip (inv.args.map (fun p => p.name.toList))) ++ [')']))
                false pq.expression.toList p false
                (c :: tl ++ '(' :: (Go.Str.join [','] (inv.args.map (fun p => p.name.toList)) ++ [')']) ++ post))
    (hpost : ∀ x ∈ idents post, ¬ (x.1 = c :: tl ∧ x.2.1 = false ∧
        Go.Str.hasPrefix x.2.2 ('(' :: (Go.Str.join [','] (inv.args.map (fun p => p.name.toList)) ++ [')'])) = true))
    (hinl : pq'.expression.toList = p ++ ('(' :: renameIdentifiers inv.matched.body.toList
              ((inv.matched.params.map (fun p => p.name.toList)).zip (inv.args.map (fun p => p.name.toList))) ++ [')']) ++ post) :
    replacePredicateVariables pq = replacePredicateVariables pq' ∧
    condOfText (String.ofList (replacePredicateVariables pq)) = condOfText (String.ofList (replacePredicateVariables pq')) := by
  have h : replacePredicateVariables pq = replacePredicateVariables pq' := by
    unfold replacePredicateVariables
    simp only [hne, hne', Bool.false_eq_true, if_false, hinv, hinv', List.foldl_cons, List.foldl_nil]
    rw [C13_expand_one_in_context inv pq.expression.toList p post c tl hname hc htl hm hlen hreach hpost, hinl]
  exact ⟨h, by rw [h]⟩

open Cpf.Lemmas.Subst in
/-- **C13 (renaming is simultaneous, token by token)**: the body with formals renamed is the body's tokens, each
    mapped on its own — an identifier that is a formal and does not follow a dot becomes its argument; other
    identifiers, member names, string literals, numbers and punctuation stay. A replacement is never renamed again
    (`isIn(m, c)` called as `isIn(c, k)`: `m ↦ c` and `c ↦ k` at once). -/
theorem C13_rename_tokenwise (s : List Char) (ren : List (List Char × List Char)) :
    renameIdentifiers s ren = (toks s).flatMap (renTok ren) :=
  renameIdentifiers_tokenwise s ren

open Cpf.Lemmas.Subst in
/-- the tokens are the text: nothing lost, nothing added -/
theorem C13_tokens_partition (s : List Char) : (toks s).flatMap Tok.text = s := toks_flatten s

/-- Non-vacuity / the case a sequential renaming gets wrong: formals `m, c`, arguments `c, k`. -/
example : String.ofList (renameIdentifiers "m.getName()==c.getName()&&\"m c\"!=x.m".toList
    [("m".toList, "c".toList), ("c".toList, "k".toList)]) = "c.getName()==k.getName()&&\"m c\"!=x.m" := by
  decide

/-- The general statement (not proved; see the header). -/
def C13_inline_full : Prop :=
  ∀ (pq : ParsedQuery) (inv : Invocation), inv ∈ pq.invocations →
    ∀ inlined : ParsedQuery, inlined.invocations = pq.invocations.filter (· ≠ inv) →
      (condOfText (String.ofList (replacePredicateVariables pq))).1 = (condOfText (String.ofList (replacePredicateVariables inlined))).1

/-! Non-vacuity: the example that the pinned tree got wrong (formal `m` inside `getName`). -/
example :
    String.ofList (replacePredicateVariables
      { selectList := [⟨"method_declaration", "md"⟩], expression := "p(md) || xp(md)",
        invocations := [{ name := "p", args := [⟨"md", "method_declaration"⟩],
                          matched := { name := "p", params := [⟨"m", "method_declaration"⟩], body := "m.getName()==\"m\"" } }] })
      = "(md.getName()==\"m\") || xp(md)" := by
  decide

end Cpf.Props.C13
