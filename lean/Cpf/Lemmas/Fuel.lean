/-
  A fuel bound for the list-of-successes recogniser.

  `parse` spends one unit of fuel per non-terminal expansion and per loop iteration. For a grammar with
  (checkable) tables  `mt` — a lower bound on the number of tokens each non-terminal derives — and `rt` — a rank
  with `rt n ≥ 1 + rank (rhs n)`, where inside a sequence a sibling that must consume `m` tokens pays for `K·m` of
  rank — and loops whose bodies consume at least one token, every derivation of `u` from `r` is found with fuel
  `K·|u| + rank r`. The tables are hints (g4gen computes them); `wfB` is what is checked.
-/
import Cpf.Lemmas.Recog

namespace Cpf.Query

abbrev Tab := List (String × Nat)

def tabGet (t : Tab) (n : String) : Nat := ((t.find? (fun p => p.1 == n)).map (·.2)).getD 0

/-- static lower bound on the number of tokens a right-hand side derives -/
def minLen (mt : Tab) : Rhs → Nat
  | .eps => 0
  | .tok _ => 1
  | .nt n => tabGet mt n
  | .seq a b => minLen mt a + minLen mt b
  | .alt a b => min (minLen mt a) (minLen mt b)
  | .star _ => 0

/-- fuel needed beyond `K` per token of the yield -/
def rank (K : Nat) (mt rt : Tab) : Rhs → Nat
  | .eps => 0
  | .tok _ => 0
  | .nt n => tabGet rt n
  | .seq a b => max (rank K mt rt a - K * minLen mt b) (rank K mt rt b - K * minLen mt a)
  | .alt a b => max (rank K mt rt a) (rank K mt rt b)
  | .star a => rank K mt rt a

/-- every loop body consumes at least one token -/
def starsOk (mt : Tab) : Rhs → Bool
  | .seq a b => starsOk mt a && starsOk mt b
  | .alt a b => starsOk mt a && starsOk mt b
  | .star a => starsOk mt a && decide (1 ≤ minLen mt a)
  | _ => true

/-- the checkable condition on a grammar and its two tables -/
def wfB (K : Nat) (g : Grammar) (mt rt : Tab) : Bool :=
  decide (1 ≤ K) &&
  g.all (fun p => decide (tabGet mt p.1 ≤ minLen mt p.2) && decide (rank K mt rt p.2 + 1 ≤ tabGet rt p.1) && starsOk mt p.2)

theorem lookup_mem {g : Grammar} {n : String} {r : Rhs} (h : lookup g n = some r) : (n, r) ∈ g := by
  unfold lookup at h
  cases hf : g.find? (fun p => p.1 == n) with
  | none => simp [hf] at h
  | some p =>
      have hm := List.mem_of_find?_eq_some hf
      have hp := List.find?_some hf
      simp [hf] at h
      have : p = (n, r) := by
        cases p with
        | mk a b => simp at hp h; subst hp; subst h; rfl
      rw [← this]; exact hm

structure WF (K : Nat) (g : Grammar) (mt rt : Tab) : Prop where
  kpos : 1 ≤ K
  minOk : ∀ n r, lookup g n = some r → tabGet mt n ≤ minLen mt r
  rankOk : ∀ n r, lookup g n = some r → rank K mt rt r + 1 ≤ tabGet rt n
  stars : ∀ n r, lookup g n = some r → starsOk mt r = true

theorem wf_of_wfB {K : Nat} {g : Grammar} {mt rt : Tab} (h : wfB K g mt rt = true) : WF K g mt rt := by
  simp only [wfB, Bool.and_eq_true, decide_eq_true_eq, List.all_eq_true] at h
  obtain ⟨hk, hall⟩ := h
  refine ⟨hk, ?_, ?_, ?_⟩
  · intro n r hl; exact (hall _ (lookup_mem hl)).1.1
  · intro n r hl; exact (hall _ (lookup_mem hl)).1.2
  · intro n r hl; exact (hall _ (lookup_mem hl)).2

/-- `minLen` really is a lower bound -/
theorem minLen_le {K : Nat} {g : Grammar} {mt rt : Tab} (hw : WF K g mt rt) {r : Rhs} {u : List Token}
    (h : Derives g r u) : minLen mt r ≤ u.length := by
  induction h with
  | eps => simp [minLen]
  | tok _ => simp [minLen]
  | nt hl _ ih => exact Nat.le_trans (hw.minOk _ _ hl) ih
  | seq _ _ iha ihb => simp only [minLen, List.length_append]; omega
  | altL _ ih => simp only [minLen]; omega
  | altR _ ih => simp only [minLen]; omega
  | starNil => simp [minLen]
  | starCons _ _ _ _ => simp [minLen]

/-- **bounded completeness**: a derivation of `u` from `r` is found with fuel `K·|u| + rank r`. -/
theorem parse_complete_bounded {K : Nat} {g : Grammar} {mt rt : Tab} (hw : WF K g mt rt) {r : Rhs} {u : List Token}
    (h : Derives g r u) (hs : starsOk mt r = true) :
    ∀ f, K * u.length + rank K mt rt r ≤ f → ∀ rest, ∃ forest, (forest, rest) ∈ parse g f r (u ++ rest) ∧ PT.tokensList forest = u := by
  induction h with
  | eps => exact fun f _ rest => ⟨[], by simp [parse], by simp [PT.tokensList]⟩
  | @tok k t hk =>
      refine fun f _ rest => ⟨[PT.leaf t], ?_, by simp [PT.tokensList, PT.tokens]⟩
      simp [parse, hk]
  | @nt n r u hl hd ih =>
      intro f hle rest
      have hr := hw.rankOk _ _ hl
      simp only [rank] at hle
      obtain ⟨f', rfl⟩ : ∃ f', f = f' + 1 := ⟨f - 1, by omega⟩
      obtain ⟨forest, hm, hy⟩ := ih (hw.stars _ _ hl) f' (by omega) rest
      refine ⟨[PT.node n forest], ?_, by simpa [PT.tokensList, PT.tokens] using hy⟩
      simp only [parse, hl, List.mem_map]
      exact ⟨(forest, rest), hm, rfl⟩
  | @seq a b u v hda hdb iha ihb =>
      intro f hle rest
      simp only [starsOk, Bool.and_eq_true] at hs
      have hu := minLen_le hw hda
      have hv := minLen_le hw hdb
      simp only [rank, List.length_append] at hle
      have h1 : K * minLen mt b ≤ K * v.length := Nat.mul_le_mul_left K hv
      have h2 : K * minLen mt a ≤ K * u.length := Nat.mul_le_mul_left K hu
      have hexp : K * (u.length + v.length) = K * u.length + K * v.length := Nat.mul_add _ _ _
      obtain ⟨xa, hma, hya⟩ := iha hs.1 f (by omega) (v ++ rest)
      obtain ⟨xb, hmb, hyb⟩ := ihb hs.2 f (by omega) rest
      refine ⟨xa ++ xb, ?_, by simp [PT.tokensList_append, hya, hyb]⟩
      simp only [parse, List.mem_flatMap, List.mem_map]
      refine ⟨(xa, v ++ rest), by simpa [List.append_assoc] using hma, (xb, rest), hmb, rfl⟩
  | @altL a b u _ ih =>
      intro f hle rest
      simp only [starsOk, Bool.and_eq_true] at hs
      simp only [rank] at hle
      obtain ⟨x, hm, hy⟩ := ih hs.1 f (by omega) rest
      exact ⟨x, by simp only [parse, List.mem_append]; exact Or.inl hm, hy⟩
  | @altR a b u _ ih =>
      intro f hle rest
      simp only [starsOk, Bool.and_eq_true] at hs
      simp only [rank] at hle
      obtain ⟨x, hm, hy⟩ := ih hs.2 f (by omega) rest
      exact ⟨x, by simp only [parse, List.mem_append]; exact Or.inr hm, hy⟩
  | @starNil a =>
      refine fun f _ rest => ⟨[], ?_, by simp [PT.tokensList]⟩
      cases f <;> simp [parse]
  | @starCons a u v hda hds iha ihs =>
      intro f hle rest
      have hs' := hs
      simp only [starsOk, Bool.and_eq_true, decide_eq_true_eq] at hs'
      have hu := minLen_le hw hda
      have hk := hw.kpos
      simp only [rank, List.length_append] at hle
      have hexp : K * (u.length + v.length) = K * u.length + K * v.length := Nat.mul_add _ _ _
      have hKu : K ≤ K * u.length := by
        have : 1 ≤ u.length := Nat.le_trans hs'.2 hu
        calc K = K * 1 := (Nat.mul_one K).symm
          _ ≤ K * u.length := Nat.mul_le_mul_left K this
      obtain ⟨f', rfl⟩ : ∃ f', f = f' + 1 := ⟨f - 1, by omega⟩
      obtain ⟨xa, hma, hya⟩ := iha hs'.1 (f' + 1) (by omega) (v ++ rest)
      obtain ⟨xs, hms, hys⟩ := ihs hs f' (by simp only [rank]; omega) rest
      refine ⟨xa ++ xs, ?_, by simp [PT.tokensList_append, hya, hys]⟩
      simp only [parse, List.mem_append, List.mem_flatMap, List.mem_map]
      refine Or.inl ⟨(xa, v ++ rest), by simpa [List.append_assoc] using hma, (xs, rest), hms, rfl⟩

end Cpf.Query
