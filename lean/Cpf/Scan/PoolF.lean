/-
  The goroutine pool of graph.Initialize once more, now carrying *which* file is where.

  `Cpf.Scan.Pool` counts; this model moves file names: the walk's list is queued in order into fileChan
  (FIFO), a worker holds the file it took, its per-file graph travels through resultChan (FIFO) and is merged
  in arrival order. Whether reading/parsing a file succeeds is a property of the file (`ok`), not of the
  schedule. `abs` forgets the names; `Cpf.Lemmas.PoolF` shows every step here is a step of the counting model
  (so termination carries over) and that enabledness carries back (so deadlock freedom does).
-/
import Cpf.Scan.Pool

namespace Cpf.Scan.PoolF
open Cpf.Scan.Pool

/-- where a worker that holds a file is: about to send the 1st / 2nd / 3rd status, the result, the progress tick -/
inductive Stage | s1 | s2 | s3 | s4 | s5
  deriving DecidableEq, Repr

def Stage.toNat : Stage → Nat
  | .s1 => 1 | .s2 => 2 | .s3 => 3 | .s4 => 4 | .s5 => 5

inductive W (F : Type) where
  | idle                         -- at `for file := range fileChan`
  | busy (st : Stage) (f : F)
  | exited                       -- left the loop, wg.Done()
  deriving Repr

def W.pc {F : Type} : W F → Nat
  | .idle => 0
  | .busy st _ => st.toNat
  | .exited => 6

structure StF (F : Type) where
  unsent : List F
  mainPc : Nat
  fileQ : List F
  workers : List (W F)
  statusQ : Nat
  resultQ : List F
  progressQ : Nat
  statusExited : Bool
  closed : Bool
  collected : List F             -- merged so far, in merge order
  failed : List F                -- given up on (unreadable / parser error)

variable {F : Type}

def initF (files : List F) (w : Nat) : StF F :=
  { unsent := files, mainPc := 0, fileQ := [], workers := List.replicate w .idle, statusQ := 0, resultQ := [],
    progressQ := 0, statusExited := false, closed := false, collected := [], failed := [] }

/-- forget the names -/
def abs (s : StF F) : St :=
  { unsent := s.unsent.length, mainPc := s.mainPc, fileQ := s.fileQ.length, workers := s.workers.map W.pc,
    statusQ := s.statusQ, resultQ := s.resultQ.length, progressQ := s.progressQ, statusExited := s.statusExited,
    closed := s.closed, collected := s.collected.length, produced := s.collected.length + s.resultQ.length,
    failed := s.failed.length }

def allExitedF (s : StF F) : Bool := s.workers.all (fun w => w.pc == 6)

inductive StepF (c : Cfg) (ok : F → Bool) : StF F → StF F → Prop
  -- main
  | queue {s f rest} : s.mainPc = 0 → s.unsent = f :: rest → s.fileQ.length < c.fileCap →
      StepF c ok s { s with unsent := rest, fileQ := s.fileQ ++ [f] }
  | closeFiles {s} : s.mainPc = 0 → s.unsent = [] → StepF c ok s { s with mainPc := 1 }
  | startStatus {s} : s.mainPc = 1 → StepF c ok s { s with mainPc := 2 }
  | startCloser {s} : s.mainPc = 2 → StepF c ok s { s with mainPc := 3 }
  | collect {s f rest} : s.mainPc = 3 → s.resultQ = f :: rest →
      StepF c ok s { s with resultQ := rest, collected := s.collected ++ [f] }
  | finish {s} : s.mainPc = 3 → s.resultQ = [] → s.closed = true → StepF c ok s { s with mainPc := 4 }
  -- workers
  | take {s f rest} (i : Nat) : s.workers[i]? = some .idle → s.fileQ = f :: rest →
      StepF c ok s { s with fileQ := rest, workers := s.workers.set i (.busy .s1 f) }
  | exit {s} (i : Nat) : s.workers[i]? = some .idle → s.fileQ = [] → 1 ≤ s.mainPc →
      StepF c ok s { s with workers := s.workers.set i .exited }
  | status1 {s f} (i : Nat) : s.workers[i]? = some (.busy .s1 f) → s.statusQ < c.statusCap →
      StepF c ok s { s with statusQ := s.statusQ + 1, workers := s.workers.set i (.busy .s2 f) }
  | fail {s f} (i : Nat) : s.workers[i]? = some (.busy .s2 f) → ok f = false →
      StepF c ok s { s with failed := f :: s.failed, workers := s.workers.set i .idle }
  | status2 {s f} (i : Nat) : s.workers[i]? = some (.busy .s2 f) → ok f = true → s.statusQ < c.statusCap →
      StepF c ok s { s with statusQ := s.statusQ + 1, workers := s.workers.set i (.busy .s3 f) }
  | status3 {s f} (i : Nat) : s.workers[i]? = some (.busy .s3 f) → s.statusQ < c.statusCap →
      StepF c ok s { s with statusQ := s.statusQ + 1, workers := s.workers.set i (.busy .s4 f) }
  | result {s f} (i : Nat) : s.workers[i]? = some (.busy .s4 f) → s.resultQ.length < c.resultCap →
      StepF c ok s { s with resultQ := s.resultQ ++ [f], workers := s.workers.set i (.busy .s5 f) }
  | progress {s f} (i : Nat) : s.workers[i]? = some (.busy .s5 f) → s.progressQ < c.progressCap →
      StepF c ok s { s with progressQ := s.progressQ + 1, workers := s.workers.set i .idle }
  -- status goroutine
  | drainStatus {s} : 2 ≤ s.mainPc → s.statusExited = false → 0 < s.statusQ → StepF c ok s { s with statusQ := s.statusQ - 1 }
  | drainProgress {s} : 2 ≤ s.mainPc → s.statusExited = false → 0 < s.progressQ → StepF c ok s { s with progressQ := s.progressQ - 1 }
  | statusExit {s} : 2 ≤ s.mainPc → s.statusExited = false → s.closed = true → (s.statusQ = 0 ∨ s.progressQ = 0) →
      StepF c ok s { s with statusExited := true }
  -- closer
  | close {s} : 3 ≤ s.mainPc → s.closed = false → allExitedF s = true → StepF c ok s { s with closed := true }

inductive ReachF (c : Cfg) (ok : F → Bool) (files : List F) (w : Nat) : StF F → Prop
  | init : ReachF c ok files w (initF files w)
  | step {s s'} : ReachF c ok files w s → StepF c ok s s' → ReachF c ok files w s'

end Cpf.Scan.PoolF
